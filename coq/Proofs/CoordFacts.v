(** C11: an inductive invariant of the coordination model over arbitrary schedules and an
    unbounded multiset of in-flight items; mutual exclusion and "quiescent implies ready" follow. *)
From Coq Require Import Lia Arith PeanoNat.
From ID Require Import Model.Coord.

(** pending connect tasks of node [x]: requests, decline replies and failures on their way to
    their handler, and sessions whose connect end has not been handled *)
Definition cw (x : bool) (it : item) : nat :=
  match it with
  | IReq y _ | IReply y _ | IFail y _ => if Bool.eqb x y then 1 else 0
  | ISess y _ c _ => if Bool.eqb x y then match c with EHandled => 0 | _ => 1 end else 0
  end.
(** pending accept ends at node [x] *)
Definition aw (x : bool) (it : item) : nat :=
  match it with
  | ISess y _ _ a => if Bool.eqb x (negb y) then match a with EHandled => 0 | _ => 1 end else 0
  | _ => 0
  end.
Fixpoint pc (x : bool) (l : list item) : nat := match l with [] => 0 | it :: r => cw x it + pc x r end.
Fixpoint pa (x : bool) (l : list item) : nat := match l with [] => 0 | it :: r => aw x it + pa x r end.

Lemma pc_app x a b : pc x (a ++ b) = pc x a + pc x b.
Proof. induction a; cbn; lia. Qed.
Lemma pa_app x a b : pa x (a ++ b) = pa x a + pa x b.
Proof. induction a; cbn; lia. Qed.

Lemma replace_pc x l : forall k it new, nth_error l k = Some it ->
  pc x (replace_nth l k new) + cw x it = pc x l + pc x new.
Proof.
  induction l as [|y l IH]; intros [|k] it new H; cbn in *; try discriminate.
  - inversion H; subst. rewrite pc_app. lia.
  - specialize (IH k it new H). lia.
Qed.
Lemma replace_pa x l : forall k it new, nth_error l k = Some it ->
  pa x (replace_nth l k new) + aw x it = pa x l + pa x new.
Proof.
  induction l as [|y l IH]; intros [|k] it new H; cbn in *; try discriminate.
  - inversion H; subst. rewrite pa_app. lia.
  - specialize (IH k it new H). lia.
Qed.

Definition isI (c : cst) : Prop := match c with Idle => True | _ => False end.
Definition isC (c : cst) : Prop := match c with RunC _ => True | _ => False end.
Definition isA (c : cst) : Prop := match c with RunA => True | _ => False end.

(** a compact view of a state: the two node states and the four counters *)
Definition view (s : cstate) :=
  (n_st (hi s), n_st (lo s), pc true (items s), pa true (items s), pc false (items s), pa false (items s)).

(** The invariant. The node with the smaller id has at most one pending task and its state says
    exactly which; the node with the greater id may accumulate pending tasks (it accepts while
    dialing), but is never marked running without a pending task of that kind. *)
Definition InvV (v : cst * cst * nat * nat * nat * nat) : Prop :=
  let '(h, l, ch, ah, cl, al) := v in
  cl + al <= 1 /\
  (isI l <-> cl + al = 0) /\ (isC l <-> cl = 1) /\ (isA l <-> al = 1) /\
  (isC h -> 1 <= ch) /\ (isA h -> 1 <= ah).
Definition Inv (s : cstate) : Prop := InvV (view s).

Lemma view_with_items s l :
  view (with_items s l) = (n_st (hi s), n_st (lo s), pc true l, pa true l, pc false l, pa false l).
Proof. reflexivity. Qed.

(** effect of [dial] on the view *)
Lemma dial_view s x r :
  view (dial s x r) =
  let '(h, l, ch, ah, cl, al) := view s in
  if x then match h with Idle => (RunC r, l, S ch, ah, cl, al) | _ => (h, l, ch, ah, cl, al) end
  else match l with Idle => (h, RunC r, ch, ah, S cl, al) | _ => (h, l, ch, ah, cl, al) end.
Proof.
  unfold view, dial, get, set. destruct x.
  - destruct (n_st (hi s)) eqn:E; cbn; rewrite ?E; auto; destruct (N.eqb r R_REPORT); cbn; rewrite ?E; auto.
  - destruct (n_st (lo s)) eqn:E; cbn; rewrite ?E; auto; destruct (N.eqb r R_REPORT); cbn; rewrite ?E; auto.
Qed.

(** effect of [finish] (with its possible resync dial) on the view *)
Lemma finish_view s x :
  view (finish s x) =
  let '(h, l, ch, ah, cl, al) := view s in
  if x then match h with
            | Idle => (h, l, ch, ah, cl, al)
            | _ => if n_resync (hi s) then (RunC R_RESYNC, l, S ch, ah, cl, al) else (Idle, l, ch, ah, cl, al)
            end
  else match l with
       | Idle => (h, l, ch, ah, cl, al)
       | _ => if n_resync (lo s) then (h, RunC R_RESYNC, ch, ah, S cl, al) else (h, Idle, ch, ah, cl, al)
       end.
Proof.
  unfold view, finish, get. destruct x.
  - destruct (n_st (hi s)) eqn:E; [now rewrite E| |]; destruct (n_resync (hi s)); reflexivity.
  - destruct (n_st (lo s)) eqn:E; [now rewrite E| |]; destruct (n_resync (lo s)); reflexivity.
Qed.

Ltac eqs E new :=
  let H1 := fresh "Hct" in let H2 := fresh "Hat" in let H3 := fresh "Hcf" in let H4 := fresh "Haf" in
  pose proof (replace_pc true _ _ _ new E) as H1; pose proof (replace_pa true _ _ _ new E) as H2;
  pose proof (replace_pc false _ _ _ new E) as H3; pose proof (replace_pa false _ _ _ new E) as H4;
  cbn [cw aw pc pa Bool.eqb negb] in H1, H2, H3, H4.

Ltac fin := unfold InvV in *; cbn [isI isC isA] in *; intuition (try lia; try discriminate).

(** the invariant is preserved by every transition, whatever item it picks *)
Theorem inv_step s t : Inv s -> Inv (cstep true s t).
Proof.
  unfold Inv. intros I. destruct t as [x r|k|k|k|k|k|k|k|k]; cbn [cstep].
  - (* dial *)
    rewrite dial_view. unfold view in *. destruct x; destruct (n_st (hi s)), (n_st (lo s)); fin.
  - (* a request is delivered *)
    destruct (nth_error (items s) k) as [[x r|x r|x r|x r c a]|] eqn:E; auto.
    unfold accept, get. destruct x; cbn [negb].
    + (* from hi to lo *)
      destruct (n_st (lo s)) eqn:L; cbn [fst snd set lo hi items];
        [eqs E [ISess true r ERun ERun] | eqs E [IReply true r] | eqs E [IReply true r]];
        rewrite view_with_items; unfold view in I; rewrite L in I; cbn [set hi lo n_st]; rewrite ?L; destruct (n_st (hi s)); fin.
    + (* from lo to hi *)
      destruct (n_st (hi s)) eqn:H; cbn [fst snd set lo hi items];
        [eqs E [ISess false r ERun ERun] | eqs E [ISess false r ERun ERun] | eqs E [IReply false r]];
        rewrite view_with_items; unfold view in I; rewrite H in I; cbn [set hi lo n_st]; rewrite ?H; destruct (n_st (lo s)); fin.
  - (* a request or a reply is lost *)
    destruct (nth_error (items s) k) as [[x r|x r|x r|x r c a]|] eqn:E; auto;
      eqs E [IFail x r]; rewrite view_with_items; unfold view in I;
      destruct x; cbn [Bool.eqb] in *; destruct (n_st (hi s)), (n_st (lo s)); fin.
  - (* a decline reply arrives: the slot is freed if it still says "dialing" *)
    destruct (nth_error (items s) k) as [[x r|x r|x r|x r c a]|] eqn:E; auto.
    eqs E (@nil item). unfold on_abort, get.
    set (s1 := with_items s (replace_nth (items s) k [])).
    assert (V1 : view s1 = (n_st (hi s), n_st (lo s), pc true (items s1), pa true (items s1), pc false (items s1), pa false (items s1))) by reflexivity.
    change (items s1) with (replace_nth (items s) k []) in V1.
    unfold view in I.
    destruct x; cbn [Bool.eqb] in *.
    + change (hi s1) with (hi s). destruct (n_st (hi s)) eqn:H.
      * rewrite V1. destruct (n_st (lo s)); fin.
      * rewrite finish_view, V1. change (hi s1) with (hi s). rewrite ?H.
        destruct (n_resync (hi s)); destruct (n_st (lo s)); fin.
      * rewrite V1. destruct (n_st (lo s)); fin.
    + change (lo s1) with (lo s). destruct (n_st (lo s)) eqn:L.
      * rewrite V1. destruct (n_st (hi s)); fin.
      * rewrite finish_view, V1. change (lo s1) with (lo s). rewrite ?L.
        destruct (n_resync (lo s)); destruct (n_st (hi s)); fin.
      * rewrite V1. destruct (n_st (hi s)); fin.
  - (* the connect end of a session finishes *)
    destruct (nth_error (items s) k) as [[x r|x r|x r|x r c a]|] eqn:E; auto. destruct c; auto.
    eqs E [ISess x r EDone a]. rewrite view_with_items. unfold view in I.
    destruct x, a; cbn [Bool.eqb negb] in *; destruct (n_st (hi s)), (n_st (lo s)); fin.
  - (* the accept end of a session finishes *)
    destruct (nth_error (items s) k) as [[x r|x r|x r|x r c a]|] eqn:E; auto. destruct a; auto.
    eqs E [ISess x r c EDone]. rewrite view_with_items. unfold view in I.
    destruct x, c; cbn [Bool.eqb negb] in *; destruct (n_st (hi s)), (n_st (lo s)); fin.
  - (* the handler of a finished connect end runs *)
    destruct (nth_error (items s) k) as [[x r|x r|x r|x r c a]|] eqn:E; auto. destruct c; auto.
    set (s1 := with_items s (replace_nth (items s) k (gc (ISess x r EHandled a)))).
    assert (V1 : view s1 = (n_st (hi s), n_st (lo s), pc true (items s1), pa true (items s1), pc false (items s1), pa false (items s1))) by reflexivity.
    change (items s1) with (replace_nth (items s) k (gc (ISess x r EHandled a))) in V1.
    rewrite finish_view, V1. change (hi s1) with (hi s). change (lo s1) with (lo s). unfold view in I.
    destruct a; cbn [gc] in *;
      [eqs E [ISess x r EHandled ERun] | eqs E [ISess x r EHandled EDone] | eqs E (@nil item)];
      destruct x; cbn [Bool.eqb negb] in *;
      destruct (n_st (hi s)), (n_st (lo s)), (n_resync (hi s)), (n_resync (lo s)); fin.
  - (* the handler of a finished accept end runs *)
    destruct (nth_error (items s) k) as [[x r|x r|x r|x r c a]|] eqn:E; auto. destruct a; auto.
    set (s1 := with_items s (replace_nth (items s) k (gc (ISess x r c EHandled)))).
    assert (V1 : view s1 = (n_st (hi s), n_st (lo s), pc true (items s1), pa true (items s1), pc false (items s1), pa false (items s1))) by reflexivity.
    change (items s1) with (replace_nth (items s) k (gc (ISess x r c EHandled))) in V1.
    rewrite finish_view, V1. change (hi s1) with (hi s). change (lo s1) with (lo s). unfold view in I.
    destruct c; cbn [gc] in *;
      [eqs E [ISess x r ERun EHandled] | eqs E [ISess x r EDone EHandled] | eqs E (@nil item)];
      destruct x; cbn [Bool.eqb negb] in *;
      destruct (n_st (hi s)), (n_st (lo s)), (n_resync (hi s)), (n_resync (lo s)); fin.
  - (* the handler of a failed connect task runs *)
    destruct (nth_error (items s) k) as [[x r|x r|x r|x r c a]|] eqn:E; auto.
    set (s1 := with_items s (replace_nth (items s) k [])).
    assert (V1 : view s1 = (n_st (hi s), n_st (lo s), pc true (items s1), pa true (items s1), pc false (items s1), pa false (items s1))) by reflexivity.
    change (items s1) with (replace_nth (items s) k []) in V1.
    rewrite finish_view, V1. change (hi s1) with (hi s). change (lo s1) with (lo s). unfold view in I.
    eqs E (@nil item).
    destruct x; cbn [Bool.eqb negb] in *;
      destruct (n_st (hi s)), (n_st (lo s)), (n_resync (hi s)), (n_resync (lo s)); fin.
Qed.

Lemma inv_init : Inv cinit.
Proof. unfold Inv, view. cbn. fin. Qed.

(** every state reachable by any schedule of any length satisfies the invariant *)
Theorem inv_reachable ts : Inv (crun true cinit ts).
Proof.
  unfold crun. generalize inv_init. generalize cinit.
  induction ts as [|t ts IH]; intros s I; cbn; auto. apply IH. now apply inv_step.
Qed.

(** never two sessions in progress: each one occupies the single slot of the smaller-id node *)
Lemma in_progress_le l : length (filter in_progress l) <= pc false l + pa false l.
Proof.
  induction l as [|it l IH]; cbn; auto.
  destruct it as [x r|x r|x r|x r c a]; cbn; try lia.
  destruct c, a; cbn; try lia; destruct x; cbn; lia.
Qed.
Theorem mutual_exclusion s : Inv s -> sessions_in_progress s <= 1.
Proof.
  unfold Inv, view, sessions_in_progress. intros I. pose proof (in_progress_le (items s)). fin.
Qed.

(** once nothing is in flight, both nodes are ready to start or accept a new session *)
Theorem quiescent_ready s : Inv s -> items s = [] -> n_st (hi s) = Idle /\ n_st (lo s) = Idle.
Proof.
  unfold Inv, view. intros I E. rewrite E in I. cbn in I.
  destruct (n_st (hi s)), (n_st (lo s)); fin.
Qed.

(** two nodes dialing each other: the request of the smaller-id node is accepted, the other one
    declined *)
Theorem simultaneous_dial_one_accepted s rh rl :
  n_st (hi s) = RunC rh -> n_st (lo s) = RunC rl ->
  snd (accept s true) = true /\ snd (accept s false) = false.
Proof. intros H L. unfold accept, get. rewrite H, L. auto. Qed.

(** a sync report refused because a session is running leads to exactly one follow-up dial when
    that run's completion is handled *)
Theorem refused_report_one_followup s x :
  n_st (get s x) <> Idle ->
  let s1 := dial s x R_REPORT in
  n_resync (get s1 x) = true /\ dials s1 = dials s /\
  let s2 := finish s1 x in
  dials s2 = (x, R_RESYNC) :: dials s /\ n_resync (get s2 x) = false /\ n_st (get s2 x) = RunC R_RESYNC.
Proof.
  intros NI. unfold dial, finish, get, set. destruct x.
  - destruct (n_st (hi s)) eqn:H; [contradiction| |]; cbn; rewrite ?H; cbn; auto.
  - destruct (n_st (lo s)) eqn:L; [contradiction| |]; cbn; rewrite ?L; cbn; auto.
Qed.

(** the pinned handlers (nothing happens on a decline) leave a node marked busy for ever: both
    dial, the request of the greater node is declined, the reply arrives, the other request is lost *)
Example quiescent_ready_refuted_pinned :
  let ts := [TDial true 2; TDial false 2; TDeliver 1; TReply 1; TLose 0; THandleFail 0]%N in
  let s := crun false cinit ts in
  items s = [] /\ n_st (hi s) = RunC 2 /\ n_st (lo s) = Idle.
Proof. vm_compute. auto. Qed.
Example quiescent_ready_same_schedule_repaired :
  let ts := [TDial true 2; TDial false 2; TDeliver 1; TReply 1; TLose 0; THandleFail 0]%N in
  let s := crun true cinit ts in
  items s = [] /\ n_st (hi s) = Idle /\ n_st (lo s) = Idle.
Proof. vm_compute. auto. Qed.
