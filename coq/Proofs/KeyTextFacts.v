(** keys.rs: the text form of a key (64 lower-case hex digits) parses back to the key's bytes, and a
    text of any other length is refused. *)
From ID Require Import Model.Codecs.
From Coq Require Import Lia Arith PeanoNat.
Open Scope N_scope.

Lemma hex_val_digit d : d < 16 -> hex_val (hex_digit d) = Some d.
Proof.
  intros Hd. unfold hex_val, hex_digit.
  destruct (d <? 10) eqn:E.
  - apply N.ltb_lt in E.
    replace ((48 <=? 48 + d) && (48 + d <=? 57))%bool with true
      by (symmetry; apply andb_true_intro; split; apply N.leb_le; lia).
    f_equal. lia.
  - apply N.ltb_ge in E.
    replace ((48 <=? 87 + d) && (87 + d <=? 57))%bool with false
      by (symmetry; apply andb_false_intro2; apply N.leb_gt; lia).
    replace ((97 <=? 87 + d) && (87 + d <=? 102))%bool with true
      by (symmetry; apply andb_true_intro; split; apply N.leb_le; lia).
    f_equal. lia.
Qed.

Lemma hex_decode_encode b : Forall (fun x => x < 256) b -> hex_decode (hex_encode b) = Some b.
Proof.
  induction 1 as [|x l Hx _ IH]; [reflexivity|].
  unfold hex_encode in *. cbn [flat_map app hex_decode].
  assert (H1 : x / 16 < 16) by (apply N.div_lt_upper_bound; lia).
  assert (H2 : x mod 16 < 16) by (apply N.mod_lt; lia).
  rewrite (hex_val_digit _ H1), (hex_val_digit _ H2), IH.
  f_equal. f_equal. rewrite (N.div_mod x 16) at 3 by lia. reflexivity.
Qed.

(** the Display form of a 32-byte key parses back to exactly its bytes *)
Lemma key_text_roundtrip b :
  length b = 32%nat -> Forall (fun x => x < 256) b -> key_of_text (hex_encode b) = Some b.
Proof.
  intros Hl Hb. unfold key_of_text. rewrite (hex_decode_encode b Hb), Hl. reflexivity.
Qed.

Lemma hex_decode_length l b : hex_decode l = Some b -> length l = (2 * length b)%nat.
Proof.
  revert b. induction l as [l IH] using (well_founded_induction (Wf_nat.well_founded_ltof _ (@length N))).
  intros b. destruct l as [|a [|c r]]; cbn [hex_decode].
  - intros [= <-]. reflexivity.
  - discriminate.
  - destruct (hex_val a); [|discriminate]. destruct (hex_val c); [|discriminate].
    destruct (hex_decode r) as [t|] eqn:E; [|discriminate].
    intros [= <-]. cbn [length]. rewrite (IH r) with (b := t); [lia| |exact E].
    unfold Wf_nat.ltof. cbn [length]. lia.
Qed.

(** only texts of exactly 64 characters are keys: a cut (or empty, or over-long) text is refused *)
Lemma key_text_length t b : key_of_text t = Some b -> length t = 64%nat /\ length b = 32%nat.
Proof.
  unfold key_of_text. destruct (hex_decode t) as [x|] eqn:E; [|discriminate].
  destruct (Nat.eqb (length x) 32) eqn:L; [|discriminate].
  intros [= <-]. apply Nat.eqb_eq in L. rewrite (hex_decode_length _ _ E), L. split; reflexivity.
Qed.

Example key_text_example :
  key_of_text (hex_encode (repeat 171 32)) = Some (repeat 171 32) /\ key_of_text [] = None
  /\ key_of_text (hex_encode (repeat 171 31)) = None.
Proof. vm_compute. repeat split. Qed.
