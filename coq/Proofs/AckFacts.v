(** C14, last clause: the store handed back by shutdown contains every acknowledged write -- the
    entry itself or an entry that superseded it -- unless its document was removed afterwards.
    Over every history of the 22 request kinds. *)
From Coq Require Import Lia.
From ID Require Import Base.Bytes Model.Entry Model.Put Model.Tables Model.Bounds Model.FsStore Model.Replica
  Model.Ranger Model.StoreOps Model.Actor
  Proofs.TblFacts Proofs.EntryFacts Proofs.PutFacts Proofs.FsPutFacts Proofs.RangerFacts Proofs.RefineFacts
  Proofs.QueryFacts Proofs.StoreFacts Proofs.ActorFacts Proofs.EventFacts Proofs.ReachFacts Proofs.HandleFacts Proofs.PeersFacts.

Lemma put_covered S e a : covered S a -> covered (fst (put S e)) a.
Proof.
  intros (p & Ip & R). unfold put. destruct (existsb (fun p => rel p e) S); cbn [fst]; [exists p; auto|].
  destruct (rel e p) eqn:EP.
  - exists e. split; [now left|]. eapply rel_trans; eauto.
  - exists p. split; auto. right. apply filter_In. split; auto. now rewrite EP.
Qed.

Lemma covered_ext S S' a : (forall x, In x S <-> In x S') -> covered S a -> covered S' a.
Proof. intros E (p & Ip & R). exists p. split; auto. now apply E. Qed.

(** one table-level put *)
Lemma fs_put_covered EH T e : SInv T -> wf_entry e ->
  let T' := fst (fs_put prefix_succ EH T e) in
  SInv T' /\ (forall a, covered (recs T) a -> covered (recs T') a) /\
  (snd (fs_put prefix_succ EH T e) <> NotInserted -> covered (recs T') e).
Proof.
  intros I We T'. pose proof (dstep_inv EH T (DPut e) I We) as I'. cbn [dstep] in I'. fold T' in I'.
  destruct I as (W & _ & _). destruct (fs_put_refines EH T e W We) as (OUT & C & _). fold T' in C.
  split; [exact I'|]. split.
  - intros a CV. apply (covered_ext (fst (put (recs T) e))); [intros x; symmetry; apply C|]. now apply put_covered.
  - intros NI. rewrite OUT in NI. exists e. split; [|apply rel_refl]. apply C.
    unfold put in *. destruct (existsb (fun p => rel p e) (recs T)); cbn [fst snd] in *; [congruence|now left].
Qed.

Lemma puts_covered EH ns l : forall T, SInv T -> Forall wf_entry l ->
  let T' := puts_ops (fs_ops prefix_succ EH ns) T l in
  SInv T' /\ (forall a, covered (recs T) a -> covered (recs T') a).
Proof.
  induction l as [|e l IH]; intros T I F; cbn [puts_ops fold_left]; [split; auto|].
  inversion F as [|? ? We Fl]; subst.
  destruct (fs_put_covered EH T e I We) as (I1 & C1 & _).
  cbn [so_put fs_ops]. destruct (IH (fst (fs_put prefix_succ EH T e)) I1 Fl) as (I2 & C2).
  split; [exact I2|]. intros a CV. apply C2, C1, CV.
Qed.

(** the acknowledged write of a request, if any *)
Definition acked (EH : N) (o : aop) (r : ares) : option entry :=
  match o, r with
  | AInsertLocal ns au true k h l now, AOk => Some (mkE ns au k now l h)
  | ADeletePrefix ns au true k now, ACount _ => Some (mkE ns au k now 0 EH)
  | AInsertRemote _ e _ _ _ _, AOk => Some e
  | _, _ => None
  end.
(** inputs as the decoders and the public API produce them: 32-byte ids, byte strings *)
Definition wf_aop (o : aop) : Prop :=
  match o with
  | AInsertLocal ns au _ k _ _ _ | ADeletePrefix ns au _ k _ => ns <= MAX256 /\ au <= MAX256 /\ wf_bytes k
  | AInsertRemote _ e _ _ _ _ => wf_entry e
  | ASyncProcess _ m _ _ => wf_message m
  | _ => True
  end.

Section Ack.
  Variables EH MF CAP mss split : N.
  Notation step := (astep prefix_succ EH MF CAP mss split).

  Lemma insert_entry_covered T now ns w o : SInv T -> wf_entry (w_entry w) ->
    let '(T', res, _) := insert_entry prefix_succ EH MF T now ns w o in
    SInv T' /\ (forall a, covered (recs T) a -> covered (recs T') a) /\
    match res with Ok _ => covered (recs T') (w_entry w) | Err _ => True end.
  Proof.
    intros I We. unfold insert_entry. destruct (validate_entry MF now ns w _); [split; [exact I|split; auto]|].
    destruct (fs_put_covered EH T (w_entry w) I We) as (I1 & C1 & A1).
    destruct (fs_put prefix_succ EH T (w_entry w)) as [T' [|n]]; cbn [fst snd] in *.
    - split; [exact I|split; auto].
    - split; [exact I1|]. split; [exact C1|]. apply A1. discriminate.
  Qed.

  Definition keeps (s s' : astate) : Prop :=
    SInv (a_tables s') /\ (forall a, covered (recs (a_tables s)) a -> covered (recs (a_tables s')) a).
  Lemma keeps_tables s s' : a_tables s' = a_tables s -> SInv (a_tables s) -> keeps s s'.
  Proof. intros E I. unfold keeps. rewrite E. auto. Qed.
  Lemma keeps_records s s' : t_records (a_tables s') = t_records (a_tables s) -> t_bykey (a_tables s') = t_bykey (a_tables s) ->
    t_latest (a_tables s') = t_latest (a_tables s) -> SInv (a_tables s) -> keeps s s'.
  Proof.
    intros R K L (W & WI & LI). unfold keeps, SInv, wf_records, wf_index, LInv, recs. rewrite R, K, L. repeat split; auto; try apply W; try apply WI.
  Qed.

  Lemma valid_values_wf (v : entry -> N -> bool) m : wf_message m -> Forall wf_entry (valid_values v (message_values m)).
  Proof.
    intros WM. apply Forall_forall. intros e I. unfold valid_values in I. apply in_map_iff in I.
    destruct I as ([e' st] & <- & I). apply filter_In in I. destruct I as [I _]. unfold message_values in I.
    apply in_flat_map in I. destruct I as (p & Ip & Iq). apply filter_In in Ip. destruct Ip as [Ip _].
    exact (WM p (e', st) Ip Iq).
  Qed.

  Definition result3 (s : astate) (o : aop) (s' : astate) (r : ares) : Prop :=
    SInv (a_tables s') /\
    (forall a, covered (recs (a_tables s)) a -> covered (recs (a_tables s')) a \/ (o = ADrop (e_ns a) /\ r = AOk)) /\
    (forall e, acked EH o r = Some e -> covered (recs (a_tables s')) e).

  Lemma result3_same s o s' r : a_tables s' = a_tables s -> acked EH o r = None -> SInv (a_tables s) -> result3 s o s' r.
  Proof. intros E A I. unfold result3. rewrite E, A. split; auto. split; auto. discriminate. Qed.

  Theorem step_covered s o : SInv (a_tables s) -> wf_aop o ->
    let '(s', r, _) := step s o in result3 s o s' r.
  Proof.
    intros I Wo. destruct o; cbn [astep].
    - (* open *) destruct (aget s ns); [|destruct (writable _ _)]; apply result3_same; auto.
    - (* close *) unfold aclose. destruct (aget s ns) as [r|]; [destruct (ar_handles r =? 1)|]; apply result3_same; auto.
    - destruct (aget s ns); apply result3_same; auto.
    - destruct (aget s ns); apply result3_same; auto.
    - destruct (aget s ns); apply result3_same; auto.
    - destruct (aget s ns); apply result3_same; auto.
    - apply result3_same; auto.
    - (* insert local *)
      destruct known_author; cbn [negb]; [|apply result3_same; auto].
      destruct (aget s ns) as [r|]; [|apply result3_same; auto].
      unfold replica_insert.
      destruct ((len =? 0) || (hash =? EH)); [rewrite deliver_nil; apply result3_same; auto|].
      destruct (negb (ar_writable r)); [rewrite deliver_nil; apply result3_same; auto|].
      pose proof (insert_entry_covered (a_tables s) now ns (mkW (mkE ns au k now len hash) true) OLocal I Wo) as IE.
      destruct (insert_entry prefix_succ EH MF (a_tables s) now ns (mkW (mkE ns au k now len hash) true) OLocal) as [[T' res] evs].
      pose proof (deliver_tables (with_tables s T') ns evs) as DT.
      destruct (deliver (with_tables s T') ns evs) as [s' d]. cbn [fst] in DT. destruct IE as (I1 & C1 & A1).
      unfold result3. rewrite DT. cbn [a_tables with_tables]. split; [exact I1|]. split; [intros a CV; left; now apply C1|].
      intros e. destruct res; cbn [acked]; [|discriminate]. intros E. inversion E; subst. exact A1.
    - (* delete prefix *)
      destruct known_author; cbn [negb]; [|apply result3_same; auto].
      destruct (aget s ns) as [r|]; [|apply result3_same; auto].
      unfold replica_delete_prefix.
      destruct (negb (ar_writable r)); [rewrite deliver_nil; apply result3_same; auto|].
      pose proof (insert_entry_covered (a_tables s) now ns (mkW (mkE ns au k now 0 EH) true) OLocal I Wo) as IE.
      destruct (insert_entry prefix_succ EH MF (a_tables s) now ns (mkW (mkE ns au k now 0 EH) true) OLocal) as [[T' res] evs].
      pose proof (deliver_tables (with_tables s T') ns evs) as DT.
      destruct (deliver (with_tables s T') ns evs) as [s' d]. cbn [fst] in DT. destruct IE as (I1 & C1 & A1).
      unfold result3. rewrite DT. cbn [a_tables with_tables]. split; [exact I1|]. split; [intros a CV; left; now apply C1|].
      intros e. destruct res; cbn [acked map_insert_result]; [|discriminate]. intros E. inversion E; subst. exact A1.
    - (* insert remote *)
      destruct (aget s ns) as [r|]; [|apply result3_same; auto].
      destruct (negb (ar_sync r)); [apply result3_same; auto|].
      unfold replica_insert_remote. cbn [w_entry].
      destruct (negb (validate_empty EH e)); [rewrite deliver_nil; apply result3_same; auto|].
      pose proof (insert_entry_covered (a_tables s) now ns (mkW e sig_ok) (OSync from st) I Wo) as IE.
      destruct (insert_entry prefix_succ EH MF (a_tables s) now ns (mkW e sig_ok) (OSync from st)) as [[T' res] evs].
      pose proof (deliver_tables (with_tables s T') ns evs) as DT.
      destruct (deliver (with_tables s T') ns evs) as [s' d]. cbn [fst] in DT. destruct IE as (I1 & C1 & A1).
      unfold result3. rewrite DT. cbn [a_tables with_tables]. split; [exact I1|]. split; [intros a CV; left; now apply C1|].
      intros e0. destruct res; cbn [acked]; [|discriminate]. intros E. inversion E; subst. exact A1.
    - (* sync init *)
      destruct (aget s ns) as [r|]; [destruct (negb (ar_sync r))|]; apply result3_same; auto.
    - (* sync process *)
      destruct (aget s ns) as [r|]; [|apply result3_same; auto].
      destruct (negb (ar_sync r)); [apply result3_same; auto|].
      unfold sync_process.
      set (v := fun (e : entry) (st : N) => sync_validate EH MF now ns (a_tables s) e st).
      change (sync_validate EH MF now ns) with (fun (_ : tables) (e : entry) (st : N) => v e st).
      pose proof (process_message_store (fs_ops prefix_succ EH ns) mss split (fun _ => MISSING) v (a_tables s) m) as PS.
      pose proof (puts_covered EH ns _ (a_tables s) I (valid_values_wf v m Wo)) as PC.
      cbv zeta in PC. rewrite <- PS in PC.
      destruct (process_message (fs_ops prefix_succ EH ns) mss split (fun _ => MISSING) (fun (_ : tables) (e : entry) (st : N) => v e st) (a_tables s) m) as [[T' reply] ins].
      cbn [fst] in PC. destruct PC as (I1 & C1).
      match goal with |- context [deliver ?a ?b ?c] => pose proof (deliver_tables a b c) as DT; destruct (deliver a b c) as [s' d] end.
      cbn [fst] in DT. unfold result3. rewrite DT. cbn [a_tables with_tables]. split; [exact I1|].
      split; [intros a CV; left; now apply C1|]. discriminate.
    - destruct (aget s ns); apply result3_same; auto.
    - destruct (aget s ns); apply result3_same; auto.
    - (* drop *)
      assert (AT : a_tables (fst (aclose s ns)) = a_tables s).
      { unfold aclose. destruct (aget s ns) as [r|]; [destruct (ar_handles r =? 1)|]; reflexivity. }
      destruct (aclose s ns) as [s1 b]. cbn [fst] in AT.
      destruct (mem ns (a_store_open s1)); [apply result3_same; auto|].
      unfold result3. cbn [a_tables with_tables]. rewrite AT.
      pose proof (dstep_inv EH (a_tables s) (DRemove ns) I Logic.I) as I1. cbn [dstep] in I1.
      split; [exact I1|]. split; [|discriminate].
      intros a (p & Ip & R).
      destruct (N.eq_dec (e_ns a) ns) as [E|NE]; [right; subst; auto|left].
      destruct (remove_replica_spec (a_tables s) ns (SInv_wf_tables _ I)) as (RR & _).
      exists p. split; auto. apply (recs_filter_ns (a_tables s) _ ns RR). split; auto.
      apply rel_spec in R. destruct R as (N1 & _). congruence.
    - (* import *)
      pose proof (dstep_inv EH (a_tables s) (DImport ns secret) I Logic.I) as I1. cbn [dstep] in I1.
      destruct (import_same (a_tables s) ns secret) as [RS _].
      destruct (import_namespace (a_tables s) ns secret) as [T' out]. cbn [fst] in *.
      assert (R3 : forall s', a_tables s' = T' -> forall r, acked EH (AImport ns secret) r = None -> result3 s (AImport ns secret) s' r).
      { intros s' E r A. unfold result3. rewrite E, A. split; [exact I1|]. split; [|discriminate].
        intros a CV. left. unfold recs in *. now rewrite RS. }
      destruct out; try (apply R3; auto; fail); destruct (aget (with_tables s T') ns); apply R3; auto.
    - destruct (aget s ns) as [r|]; [destruct (ar_writable r)|]; apply result3_same; auto.
    - (* set policy *)
      destruct (get_cap (a_tables s) ns); [|apply result3_same; auto].
      unfold result3. cbn [acked a_tables with_tables].
      destruct I as (W & WI & LI). split; [repeat split; try apply W; try apply WI; auto|]. split; [auto|discriminate].
    - apply result3_same; auto.
    - (* register peer *)
      destruct (get_cap (a_tables s) ns) eqn:GC.
      + destruct (register_useful_peer_tables CAP (a_tables s) ns peer (a_clock s)) as (T' & E & _ & _ & SB); [congruence|].
        rewrite E. destruct SB as (R & K & L & _). unfold result3. cbn [acked a_tables].
        destruct I as (W & WI & LI). unfold SInv, wf_records, wf_index, LInv, recs. rewrite R, K, L.
        split; [repeat split; try apply W; try apply WI; auto|]. split; [auto|discriminate].
      + rewrite (register_unknown_fails CAP (a_tables s) ns peer (a_clock s) GC). apply result3_same; auto.
    - destruct (aget s ns); apply result3_same; auto.
    - apply result3_same; auto.
  Qed.

  (** an offer of an entry that is held or superseded is rejected: nothing changes, nobody is told *)
  Lemma covered_offer_rejected T e : SInv T -> wf_entry e -> covered (recs T) e ->
    snd (fs_put prefix_succ EH T e) = NotInserted.
  Proof.
    intros (W & _ & _) We (p & Ip & R). destruct (fs_put_refines EH T e W We) as (OUT & _ & _). rewrite OUT.
    unfold put. assert (X : existsb (fun p => rel p e) (recs T) = true) by (apply existsb_exists; exists p; auto).
    now rewrite X.
  Qed.

  Theorem redelivery_is_silent s ns e ok from st now :
    SInv (a_tables s) -> wf_entry e -> covered (recs (a_tables s)) e ->
    let '(s', r, d) := step s (AInsertRemote ns e ok from st now) in
    d = [] /\ a_tables s' = a_tables s /\ r <> AOk.
  Proof.
    intros I We CV. cbn [astep]. destruct (aget s ns) as [ar|]; [|repeat split; discriminate].
    destruct (negb (ar_sync ar)); [repeat split; discriminate|].
    unfold replica_insert_remote, insert_entry. cbn [w_entry].
    destruct (negb (validate_empty EH e)); [rewrite deliver_nil; repeat split; discriminate|].
    destruct (validate_entry MF now ns (mkW e ok) false); [rewrite deliver_nil; repeat split; discriminate|].
    pose proof (covered_offer_rejected (a_tables s) e I We CV) as NI. cbn [w_entry].
    destruct (fs_put prefix_succ EH (a_tables s) e) as [T' out]. cbn [snd] in NI. subst out.
    rewrite deliver_nil. repeat split; discriminate.
  Qed.

  Notation run := (arun prefix_succ EH MF CAP mss split).

  (** what is held or superseded stays so until the end, unless its document is dropped on the way *)
  Lemma run_covered ops : forall s, SInv (a_tables s) -> Forall wf_aop ops ->
    let '(s', tr) := run s ops in
    SInv (a_tables s') /\
    forall a, covered (recs (a_tables s)) a -> covered (recs (a_tables s')) a \/ In (ADrop (e_ns a), AOk) tr.
  Proof.
    induction ops as [|o ops IH]; intros s I F; cbn [arun]; [split; auto|].
    inversion F as [|? ? Wo Fo]; subst.
    pose proof (step_covered s o I Wo) as ST. destruct (step s o) as [[s1 r] d]. destruct ST as (I1 & C1 & _).
    specialize (IH s1 I1 Fo). destruct (run s1 ops) as [s2 tr]. destruct IH as (I2 & C2).
    split; [exact I2|]. intros a CV. destruct (C1 a CV) as [CV1|[-> ->]]; [|right; now left].
    destruct (C2 a CV1) as [CV2|D]; [now left|right; now right].
  Qed.

  (** every acknowledged write of the history is in the final store -- itself or superseded -- or its
      document was dropped (acknowledged) later in the history *)
  Theorem acked_writes_survive ops : forall s, SInv (a_tables s) -> Forall wf_aop ops ->
    let '(s', tr) := run s ops in
    forall tr1 o r tr2 e, tr = tr1 ++ (o, r) :: tr2 -> acked EH o r = Some e ->
      covered (recs (a_tables s')) e \/ In (ADrop (e_ns e), AOk) tr2.
  Proof.
    induction ops as [|o ops IH]; intros s I F; cbn [arun].
    - intros tr1 o r tr2 e E. destruct tr1; discriminate.
    - inversion F as [|? ? Wo Fo]; subst.
      pose proof (step_covered s o I Wo) as ST. destruct (step s o) as [[s1 r] d]. destruct ST as (I1 & _ & A1).
      pose proof (run_covered ops s1 I1 Fo) as RC. specialize (IH s1 I1 Fo).
      destruct (run s1 ops) as [s2 tr]. destruct RC as (_ & C2).
      intros tr1 o' r' tr2 e E A. destruct tr1 as [|x tr1]; cbn [app] in E; inversion E; subst.
      + apply C2. now apply A1.
      + eapply IH; eauto.
  Qed.

  Corollary shutdown_store_has_acked_writes T ops : SInv T -> Forall wf_aop ops ->
    let '(s', tr) := run (ainit T) ops in
    forall tr1 o r tr2 e, tr = tr1 ++ (o, r) :: tr2 -> acked EH o r = Some e ->
      (exists d, In d (recs (a_tables s')) /\ rel d e = true) \/ In (ADrop (e_ns e), AOk) tr2.
  Proof. intros I F. exact (acked_writes_survive ops (ainit T) I F). Qed.
End Ack.
