(** C16, last clause: the content hashes the store reports are exactly the hashes of the entries
    held in any document -- one per held entry. *)
From ID Require Import Base.Bytes Model.Entry Model.Tables Model.Bounds Model.FsStore Model.StoreOps
  Proofs.FsPutFacts Proofs.RefineFacts.

Definition content_hashes (T : tables) : list N := map (fun r => snd (snd r)) (t_records T).

Lemma content_hashes_recs T : content_hashes T = map e_hash (recs T).
Proof.
  unfold content_hashes, recs. rewrite map_map. apply map_ext. now intros [[[n a] k] [[t l] h]].
Qed.

Theorem content_hashes_exact T : Forall wf_row (t_records T) ->
  forall h, In h (content_hashes T) <-> exists ns e, In e (fs_all ns T) /\ e_hash e = h.
Proof.
  intros W h. rewrite content_hashes_recs, in_map_iff. split.
  - intros (e & E & I). exists (e_ns e), e. split; auto. apply in_fs_all; auto.
  - intros (ns & e & I & E). exists e. split; auto. now apply (in_fs_all ns T e W).
Qed.

Theorem content_hashes_step ks EH MF CAP s :
  store_step ks EH MF CAP s SContentHashes = (s, RHashes (content_hashes (s_tables s))).
Proof. reflexivity. Qed.

(** re-creating a removed document yields an empty document with fresh settings, holding exactly
    the capability that was imported (nothing of the earlier life is merged into it) *)
From ID Require Import Model.Replica Proofs.TblFacts Proofs.StoreFacts.

Theorem recreate_empty T ns c : wf_tables T ->
  let '(T', out) := import_namespace (remove_replica T ns) ns c in
  out = ImpInserted /\ get_cap T' ns = Some c /\
  fs_all ns T' = [] /\ heads_of T' ns = [] /\ peers_of T' ns = [] /\ get_policy T' ns = default_policy /\
  t_records T' = t_records (remove_replica T ns).
Proof.
  intros W. destruct (remove_erases T ns W) as (A & B & C & D & E & _).
  unfold import_namespace. rewrite C. cbn zeta. split; [reflexivity|].
  split; [unfold get_cap; cbn [t_namespaces set_namespaces]; apply (tbl_get_insert_same N.compare N.compare_eq_iff)|].
  repeat split; auto.
Qed.
