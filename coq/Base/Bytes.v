(** Byte strings as lists of [N] (each < 256 when well-formed), with the orders the Rust code
    uses: slice lexicographic order, [starts_with], and the two "successor" functions that
    [store/fs/bounds.rs] could compute. No proofs in this file. *)
From Coq Require Export List NArith Bool.
Export ListNotations.
Open Scope N_scope.

Definition bytes := list N.

Definition wf_byte (b : N) : Prop := b <= 255.
Definition wf_bytes (k : bytes) : Prop := Forall wf_byte k.
Definition wf_bytesb (k : bytes) : bool := forallb (fun b => b <=? 255) k.

Fixpoint bytes_eqb (a b : bytes) : bool :=
  match a, b with
  | [], [] => true
  | x :: a', y :: b' => (x =? y) && bytes_eqb a' b'
  | _, _ => false
  end.

(** [k.starts_with(p)] *)
Fixpoint is_prefix (p k : bytes) : bool :=
  match p, k with
  | [], _ => true
  | _ :: _, [] => false
  | x :: p', y :: k' => (x =? y) && is_prefix p' k'
  end.

(** strict lexicographic order, as Rust's [Ord] on [[u8]] *)
Fixpoint lex_lt (a b : bytes) : bool :=
  match a, b with
  | _, [] => false
  | [], _ :: _ => true
  | x :: a', y :: b' => (x <? y) || ((x =? y) && lex_lt a' b')
  end.
Definition lex_le (a b : bytes) : bool := negb (lex_lt b a).

Fixpoint lex_cmp (a b : bytes) : comparison :=
  match a, b with
  | [], [] => Eq
  | [], _ :: _ => Lt
  | _ :: _, [] => Gt
  | x :: a', y :: b' =>
      match x ?= y with
      | Eq => lex_cmp a' b'
      | c => c
      end
  end.

(** The exact upper bound of "all byte strings starting with [p]": drop trailing 0xFF bytes,
    then add one to the last remaining byte. [None] = unbounded (p is empty or all 0xFF). *)
Fixpoint prefix_succ (p : bytes) : option bytes :=
  match p with
  | [] => None
  | x :: p' =>
      match prefix_succ p' with
      | Some s => Some (x :: s)
      | None => if x <? 255 then Some [x + 1] else None
      end
  end.

(** [increment_by_one] of bounds.rs: add one with carry, keeping the length.
    [None] = overflow (the Rust function returns [false]; the buffer is then all zeroes). *)
Fixpoint inc_carry (p : bytes) : option bytes :=
  match p with
  | [] => None
  | x :: p' =>
      match inc_carry p' with
      | Some s => Some (x :: s)
      | None => if x <? 255 then Some (x + 1 :: map (fun _ => 0) p') else None
      end
  end.

(** [k < hi] where [None] is "unbounded" *)
Definition below (k : bytes) (hi : option bytes) : bool :=
  match hi with Some s => lex_lt k s | None => true end.

(** big-endian value of a byte string (used for the fixed-width ids) *)
Definition be_value (k : bytes) : N := fold_left (fun acc b => acc * 256 + b) k 0.

(** drop the last byte ([Vec::pop]) *)
Fixpoint pop (k : bytes) : bytes :=
  match k with
  | [] => []
  | [_] => []
  | x :: k' => x :: pop k'
  end.
