From Coq Require Import Lia.
From ID Require Import Base.Bytes.

Lemma bytes_eqb_eq a b : bytes_eqb a b = true <-> a = b.
Proof.
  revert b; induction a as [|x a IH]; intros [|y b]; cbn; try easy.
  rewrite andb_true_iff, N.eqb_eq, IH. split; [intros [-> ->]; auto | intros H; inversion H; auto].
Qed.
Lemma bytes_eqb_refl a : bytes_eqb a a = true.
Proof. now apply bytes_eqb_eq. Qed.
Lemma bytes_eqb_neq a b : bytes_eqb a b = false <-> a <> b.
Proof.
  split; intros H.
  - intros E. apply bytes_eqb_eq in E. congruence.
  - destruct (bytes_eqb a b) eqn:E; auto. apply bytes_eqb_eq in E. contradiction.
Qed.

Lemma bytes_eq_dec (a b : bytes) : {a = b} + {a <> b}.
Proof. apply list_eq_dec, N.eq_dec. Defined.

Lemma is_prefix_refl k : is_prefix k k = true.
Proof. induction k as [|x k IH]; cbn; auto. now rewrite N.eqb_refl. Qed.
Lemma is_prefix_nil k : is_prefix [] k = true.
Proof. reflexivity. Qed.
Lemma is_prefix_trans a b c : is_prefix a b = true -> is_prefix b c = true -> is_prefix a c = true.
Proof.
  revert b c; induction a as [|x a IH]; intros [|y b] [|z c]; cbn; try easy.
  rewrite !andb_true_iff, !N.eqb_eq. intros [-> H1] [-> H2]. split; auto. eapply IH; eauto.
Qed.
Lemma is_prefix_antisym a b : is_prefix a b = true -> is_prefix b a = true -> a = b.
Proof.
  revert b; induction a as [|x a IH]; intros [|y b]; cbn; try easy.
  rewrite !andb_true_iff, !N.eqb_eq. intros [-> H1] [_ H2]. f_equal; auto.
Qed.
Lemma is_prefix_app p k : is_prefix p k = true <-> exists s, k = p ++ s.
Proof.
  revert k; induction p as [|x p IH]; intros k; cbn.
  - split; eauto.
  - destruct k as [|y k]; cbn.
    + split; [easy | intros [s H]; discriminate].
    + rewrite andb_true_iff, N.eqb_eq, IH. split.
      * intros [-> [s ->]]. eauto.
      * intros [s H]. inversion H; subst. eauto.
Qed.
Lemma is_prefix_length p k : is_prefix p k = true -> (length p <= length k)%nat.
Proof. intros H. apply is_prefix_app in H. destruct H as [s ->]. rewrite app_length. lia. Qed.

(** two prefixes of one string are comparable *)
Lemma is_prefix_comparable a b k :
  is_prefix a k = true -> is_prefix b k = true -> is_prefix a b = true \/ is_prefix b a = true.
Proof.
  revert b k; induction a as [|x a IH]; intros b k; [now left|].
  destruct b as [|y b]; [now right|].
  destruct k as [|z k]; cbn; [easy|].
  rewrite !andb_true_iff, !N.eqb_eq. intros [-> H1] [-> H2].
  destruct (IH b k H1 H2) as [H|H]; [left|right]; split; auto.
Qed.

(** ** the lexicographic order *)
Lemma lex_lt_irrefl a : lex_lt a a = false.
Proof. induction a as [|x a IH]; cbn; auto. now rewrite N.ltb_irrefl, N.eqb_refl, IH. Qed.
Lemma lex_lt_trans a b c : lex_lt a b = true -> lex_lt b c = true -> lex_lt a c = true.
Proof.
  revert b c; induction a as [|x a IH]; intros [|y b] [|z c]; cbn; try easy.
  rewrite !orb_true_iff, !andb_true_iff, !N.ltb_lt, !N.eqb_eq.
  intros [H1|[-> H1]] [H2|[-> H2]]; try (left; lia). right. split; auto. eapply IH; eauto.
Qed.
Lemma lex_lt_asym a b : lex_lt a b = true -> lex_lt b a = false.
Proof.
  intros H. destruct (lex_lt b a) eqn:E; auto.
  pose proof (lex_lt_trans _ _ _ H E) as T. now rewrite lex_lt_irrefl in T.
Qed.
Lemma lex_total a b : lex_lt a b = true \/ a = b \/ lex_lt b a = true.
Proof.
  revert b; induction a as [|x a IH]; intros [|y b]; cbn; auto.
  destruct (N.compare_spec x y) as [->|L|G].
  - rewrite N.ltb_irrefl, N.eqb_refl. cbn. destruct (IH b) as [H|[->|H]]; auto.
  - left. apply orb_true_iff. left. now apply N.ltb_lt.
  - right. right. apply orb_true_iff. left. now apply N.ltb_lt.
Qed.
Lemma lex_le_refl a : lex_le a a = true.
Proof. unfold lex_le. now rewrite lex_lt_irrefl. Qed.
Lemma lex_le_antisym a b : lex_le a b = true -> lex_le b a = true -> a = b.
Proof.
  unfold lex_le. rewrite !negb_true_iff. intros H1 H2.
  destruct (lex_total a b) as [H|[H|H]]; congruence.
Qed.
Lemma lex_le_trans a b c : lex_le a b = true -> lex_le b c = true -> lex_le a c = true.
Proof.
  unfold lex_le. rewrite !negb_true_iff. intros H1 H2.
  destruct (lex_lt c a) eqn:E; auto.
  destruct (lex_total a b) as [H|[->|H]]; try congruence.
  pose proof (lex_lt_trans _ _ _ E H). congruence.
Qed.
Lemma lex_lt_le a b : lex_lt a b = true -> lex_le a b = true.
Proof. intros H. unfold lex_le. now rewrite (lex_lt_asym _ _ H). Qed.
Lemma lex_le_lt_trans a b c : lex_le a b = true -> lex_lt b c = true -> lex_lt a c = true.
Proof.
  unfold lex_le. rewrite negb_true_iff. intros H1 H2.
  destruct (lex_total a b) as [H|[->|H]]; try congruence. eapply lex_lt_trans; eauto.
Qed.
Lemma lex_lt_le_trans a b c : lex_lt a b = true -> lex_le b c = true -> lex_lt a c = true.
Proof.
  unfold lex_le. rewrite negb_true_iff. intros H1 H2.
  destruct (lex_total b c) as [H|[<-|H]]; try congruence. eapply lex_lt_trans; eauto.
Qed.
Lemma lex_cmp_lt a b : lex_cmp a b = Lt <-> lex_lt a b = true.
Proof.
  revert b; induction a as [|x a IH]; intros [|y b]; cbn; try easy.
  destruct (N.compare_spec x y) as [->|L|G].
  - rewrite N.ltb_irrefl, N.eqb_refl. cbn. apply IH.
  - split; auto. intros _. apply orb_true_iff. left. now apply N.ltb_lt.
  - split; [easy|]. rewrite orb_true_iff, andb_true_iff, N.ltb_lt, N.eqb_eq. lia.
Qed.
Lemma lex_cmp_eq a b : lex_cmp a b = Eq <-> a = b.
Proof.
  revert b; induction a as [|x a IH]; intros [|y b]; cbn; try easy.
  destruct (N.compare_spec x y) as [->|L|G].
  - rewrite IH. split; [now intros ->|]. intros H; now inversion H.
  - split; [easy|]. intros H; inversion H; lia.
  - split; [easy|]. intros H; inversion H; lia.
Qed.
Lemma prefix_lex_le p k : is_prefix p k = true -> lex_le p k = true.
Proof.
  unfold lex_le. revert k; induction p as [|x p IH]; intros [|y k]; cbn; try easy.
  rewrite andb_true_iff, N.eqb_eq. intros [-> H]. rewrite N.ltb_irrefl, N.eqb_refl. cbn. auto.
Qed.

(** ** the prefix range lemma (the bound bounds.rs must compute) *)
Lemma all_ff_prefix p : prefix_succ p = None ->
  forall k, wf_bytes k -> lex_le p k = true -> is_prefix p k = true.
Proof.
  unfold lex_le. induction p as [|x p IH]; intros H k W L; cbn; auto.
  cbn in H. destruct (prefix_succ p) eqn:E; [discriminate|].
  destruct (x <? 255) eqn:X; [discriminate|]. apply N.ltb_ge in X.
  destruct k as [|y k]; cbn in L; [discriminate|].
  inversion W as [|? ? Wy Wk]; subst. unfold wf_byte in Wy.
  apply negb_true_iff, orb_false_iff in L. destruct L as [L1 L2]. apply N.ltb_ge in L1.
  assert (x = y) by lia. subst y. rewrite N.eqb_refl in *. cbn in *.
  apply IH; auto. now rewrite L2.
Qed.

Theorem prefix_range_exact p : forall k, wf_bytes k ->
  is_prefix p k = lex_le p k && below k (prefix_succ p).
Proof.
  unfold lex_le. induction p as [|x p IH]; intros k W.
  - destruct k; reflexivity.
  - destruct k as [|y k]; [cbn; now destruct (prefix_succ p); [|destruct (x <? 255)]|].
    inversion W as [|? ? Wy Wk]; subst. unfold wf_byte in Wy. cbn [is_prefix lex_lt prefix_succ].
    specialize (IH k Wk).
    destruct (N.compare_spec x y) as [->|Lt|Gt].
    + rewrite N.eqb_refl, N.ltb_irrefl. cbn [andb orb]. rewrite IH.
      destruct (prefix_succ p) as [s|] eqn:E; cbn [below lex_lt].
      * now rewrite N.eqb_refl, N.ltb_irrefl.
      * destruct (y <? 255) eqn:Y; cbn [below lex_lt].
        -- assert (H : y <? y + 1 = true) by (apply N.ltb_lt; lia). rewrite H. cbn. now rewrite andb_true_r.
        -- now rewrite andb_true_r.
    + assert (H : x =? y = false) by (apply N.eqb_neq; lia).
      assert (H0 : y <? x = false) by (apply N.ltb_ge; lia).
      assert (H1 : y =? x = false) by (apply N.eqb_neq; lia).
      rewrite H, H0, H1. cbn [andb orb negb].
      destruct (prefix_succ p) as [s|]; cbn [below lex_lt].
      * rewrite H0, H1. reflexivity.
      * destruct (x <? 255) eqn:X; cbn [below lex_lt]; [|apply N.ltb_ge in X; lia].
        assert (H2 : y <? x + 1 = false) by (apply N.ltb_ge; lia).
        assert (H3 : y =? x + 1 = false \/ y = x + 1) by (destruct (N.eqb_spec y (x+1)); auto).
        rewrite H2. destruct H3 as [->| ->]; cbn; auto. rewrite N.eqb_refl. now destruct k.
    + assert (H : x =? y = false) by (apply N.eqb_neq; lia).
      assert (H0 : y <? x = true) by (apply N.ltb_lt; lia).
      rewrite H, H0. reflexivity.
Qed.

(** [pop] removes the last byte *)
Lemma pop_app k b : pop (k ++ [b]) = k.
Proof.
  induction k as [|x k IH]; cbn [app pop]; auto.
  destruct (k ++ [b]) as [|y r] eqn:E; [destruct k; discriminate|]. now rewrite IH.
Qed.
Lemma pop_length k : length (pop k) = pred (length k).
Proof.
  induction k as [|x k IH]; cbn; auto. destruct k; cbn in *; auto.
Qed.
Lemma pop_prefix k : is_prefix (pop k) k = true.
Proof.
  induction k as [|x k IH]; cbn; auto. destruct k as [|y k]; cbn; auto.
  rewrite N.eqb_refl. exact IH.
Qed.
