(** postcard's wire primitives as total functions on byte lists: LEB128 varints with postcard's
    exact acceptance rule, raw fixed-width arrays, length-prefixed byte strings and sequences,
    enum discriminants, booleans. A decoder returns the value and the unread rest. No proofs. *)
From ID Require Export Base.Bytes.

Definition parser (A : Type) := bytes -> option (A * bytes).

(** ---- varints ---- *)
Fixpoint enc_varint_fuel (fuel : nat) (v : N) : bytes :=
  match fuel with
  | O => [v mod 128]
  | S f => if v <? 128 then [v] else (v mod 128 + 128) :: enc_varint_fuel f (v / 128)
  end.
Definition enc_varint (v : N) : bytes := enc_varint_fuel 9 v.   (* at most 10 bytes: u64 *)

(** [try_take_varint_u64]-style: at most [maxb] bytes; the last allowed byte must be <= [lastmax] *)
Fixpoint dec_varint_go (maxb : nat) (lastmax : N) (i : nat) (shift : N) (acc : N) (b : bytes) : option (N * bytes) :=
  match i with
  | O => None
  | S i' =>
      match b with
      | [] => None
      | x :: r =>
          let acc' := acc + (x mod 128) * shift in
          if x <? 128 then
            if (Nat.eqb i' 0) && (lastmax <? x) then None else Some (acc', r)
          else dec_varint_go maxb lastmax i' (shift * 128) acc' r
      end
  end.
Definition dec_varint_u64 : parser N := dec_varint_go 10 1 10 1 0.
Definition dec_varint_u32 : parser N := dec_varint_go 5 15 5 1 0.

(** ---- fixed-width raw bytes ---- *)
Fixpoint take (n : nat) (b : bytes) : option (bytes * bytes) :=
  match n with
  | O => Some ([], b)
  | S m => match b with
           | [] => None
           | x :: r => match take m r with Some (a, rest) => Some (x :: a, rest) | None => None end
           end
  end.

(** ---- length-prefixed bytes ---- *)
Definition enc_bytes (v : bytes) : bytes := enc_varint (N.of_nat (length v)) ++ v.
Definition dec_bytes : parser bytes := fun b =>
  match dec_varint_u64 b with
  | Some (n, r) => if N.of_nat (length r) <? n then None else take (N.to_nat n) r
  | None => None
  end.

Definition enc_bool (v : bool) : bytes := [if v then 1 else 0].
Definition dec_bool : parser bool := fun b =>
  match b with
  | 0 :: r => Some (false, r)
  | 1 :: r => Some (true, r)
  | _ => None
  end.

(** ---- sequences ---- *)
Section Seq.
  Context {A : Type} (enc : A -> bytes) (dec : parser A).
  Fixpoint dec_n (n : nat) (b : bytes) : option (list A * bytes) :=
    match n with
    | O => Some ([], b)
    | S m => match dec b with
             | Some (x, r) => match dec_n m r with Some (xs, r') => Some (x :: xs, r') | None => None end
             | None => None
             end
    end.
  Definition enc_seq (l : list A) : bytes := enc_varint (N.of_nat (length l)) ++ flat_map enc l.
  (** the count is bounded by the bytes that are left (every element takes at least one byte in
      the formats used here), which also keeps [N.to_nat] small *)
  Definition dec_seq : parser (list A) := fun b =>
    match dec_varint_u64 b with
    | Some (n, r) => if N.of_nat (length r) <? n then None else dec_n (N.to_nat n) r
    | None => None
    end.
End Seq.
