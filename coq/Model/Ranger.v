(** ranger.rs: messages, [process_message] (item parts, fingerprint parts, the recursion anchor,
    the split with its pivot arithmetic), [initial_message], and a session driver with explicit
    fuel — written against a small store interface so that the same algorithm runs over the
    table-level store model and over a plain ordered list. sync.rs [sync_process_message]
    (validation callback, counters, events) is layered on top. No proofs in this file. *)
From ID Require Export Model.Replica.

(** The model's fingerprint of a set of entries is the set itself (in key order, without the
    [len] field, which the real fingerprint does not hash). The real function — XOR of BLAKE3
    hashes — is assumed collision free; the harness checks that every fingerprint on the wire is
    the real fingerprint of the entry list recorded for it. *)
Definition fp_entry := (N * N * bytes * N * N)%type.   (* ns, author, key, timestamp, hash *)
Definition fingerprint := list fp_entry.
Definition fp_of (l : list entry) : fingerprint :=
  map (fun e => (e_ns e, e_author e, e_key e, e_ts e, e_hash e)) l.
Definition fp_entry_eqb (a b : fp_entry) : bool :=
  let '(n1, a1, k1, t1, h1) := a in let '(n2, a2, k2, t2, h2) := b in
  (n1 =? n2) && (a1 =? a2) && bytes_eqb k1 k2 && (t1 =? t2) && (h1 =? h2).
Fixpoint fp_eqb (a b : fingerprint) : bool :=
  match a, b with
  | [], [] => true
  | x :: a', y :: b' => fp_entry_eqb x y && fp_eqb a' b'
  | _, _ => false
  end.
Definition fp_is_empty (f : fingerprint) : bool := match f with [] => true | _ => false end.

Inductive part :=
  | PFp (x y : rid) (fp : fingerprint)
  | PItem (x y : rid) (values : list (entry * N)) (have_local : bool).
Definition message := list part.

Definition rid_eqb (a b : rid) : bool := match rid_cmp a b with Eq => true | _ => false end.

Definition part_values (p : part) : list (entry * N) :=
  match p with PFp _ _ _ => [] | PItem _ _ v _ => v end.
Definition value_count (m : message) : N := N.of_nat (length (flat_map part_values m)).

Record store_ops (St : Type) := mkOps {
  so_first : St -> rid;
  so_range : St -> rid -> rid -> list entry;
  so_put : St -> entry -> St * outcome }.
Arguments mkOps {St}. Arguments so_first {St}. Arguments so_range {St}. Arguments so_put {St}.

Section Ranger.
  Context {St : Type} (ops : store_ops St).
  Variable max_set_size : N.
  Variable split_factor : N.
  Variable status_of : entry -> N.              (* content_status_cb *)
  Variable validate : St -> entry -> N -> bool. (* validate_cb *)

  Definition with_status (l : list entry) : list (entry * N) := map (fun e => (e, status_of e)) l.

  Definition initial_message (s : St) : message :=
    let x := so_first ops s in [PFp x x (fp_of (so_range ops s x x))].

  (** store the incoming values of one item part; returns the inserted (entry, status) list *)
  Fixpoint store_values (s : St) (vs : list (entry * N)) : St * list (entry * N) :=
    match vs with
    | [] => (s, [])
    | (e, st) :: r =>
        if validate s e st then
          match so_put ops s e with
          | (s', Inserted _) => let '(s'', ins) := store_values s' r in (s'', (e, st) :: ins)
          | (s', NotInserted) => store_values s' r
          end
        else store_values s r
    end.

  Definition process_item (s : St) (x y : rid) (values : list (entry * N)) (have_local : bool)
    : St * list part * list (entry * N) :=
    let diff :=
      if have_local then None
      else Some (filter (fun our => negb (existsb (fun their => same_id our (fst their) && val_leb our (fst their)) values))
                        (so_range ops s x y)) in
    let '(s', ins) := store_values s values in
    let out := match diff with
               | Some (d :: ds) => [PItem x y (with_status (d :: ds)) true]
               | _ => []
               end in
    (s', out, ins).

  (** number of leading elements whose key is below [x] *)
  Fixpoint start_index (x : rid) (l : list entry) : nat :=
    match l with
    | [] => O
    | e :: r => match rid_cmp (entry_rid e) x with Lt => S (start_index x r) | _ => O end
    end.

  Definition pivot (l : list entry) (start : nat) (i : N) : rid :=
    let n := N.of_nat (length l) in
    let i := i mod split_factor in
    let offset := (n * (i + 1)) / split_factor in
    let offset := (N.of_nat start + offset) mod n in
    match nth_error l (N.to_nat offset) with Some e => entry_rid e | None => default_id end.

  Definition nseq (n : N) : list N := map N.of_nat (seq 0 (N.to_nat n)).

  Definition split_ranges (x y : rid) (l : list entry) : list (rid * rid) :=
    let st := start_index x l in
    let pv := pivot l st in
    let nonempty := filter (fun r => negb (rid_eqb (fst r) (snd r))) in
    if rid_eqb x y then
      nonempty (map (fun i => (pv i, pv (i + 1))) (nseq split_factor))
    else
      [(x, pv 0)]
      ++ nonempty (map (fun i => (pv i, pv (i + 1))) (nseq (split_factor - 2)))
      ++ [(pv (split_factor - 2), y)].

  Definition process_fp (s : St) (x y : rid) (fp : fingerprint) : list part :=
    let l := so_range ops s x y in
    if fp_eqb (fp_of l) fp then []
    else if (N.of_nat (length l) <=? 1) || fp_is_empty fp then [PItem x y (with_status l) false]
    else
      map (fun r =>
             let chunk := so_range ops s (fst r) (snd r) in
             if max_set_size <? N.of_nat (length chunk)
             then PFp (fst r) (snd r) (fp_of chunk)
             else PItem (fst r) (snd r) (with_status chunk) false)
          (split_ranges x y l).

  Definition is_item (p : part) : bool := match p with PItem _ _ _ _ => true | _ => false end.

  (** [process_message]: all item parts first, then all fingerprint parts *)
  Definition process_message (s : St) (m : message) : St * option message * list (entry * N) :=
    let items := filter is_item m in
    let fps := filter (fun p => negb (is_item p)) m in
    let '(s1, out1, ins) :=
      fold_left (fun acc p =>
                   let '(s, out, ins) := acc in
                   match p with
                   | PItem x y vs hl => let '(s', o, i) := process_item s x y vs hl in (s', out ++ o, ins ++ i)
                   | _ => acc
                   end) items (s, [], []) in
    let out2 := flat_map (fun p => match p with PFp x y fp => process_fp s1 x y fp | _ => [] end) fps in
    let out := out1 ++ out2 in
    (s1, match out with [] => None | _ => Some out end, ins).
End Ranger.

(** ---- the two store instances ---- *)
Definition fs_ops (key_succ : bytes -> option bytes) (EH ns : N) : store_ops tables :=
  mkOps (fs_get_first ns) (fs_get_range ns) (fs_put key_succ EH).

(** a plain ordered list of entries (all of one namespace): the reference ordered map *)
Definition range_contains (x y k : rid) : bool :=
  match rid_cmp x y with
  | Eq => true
  | Lt => match rid_cmp x k with Gt => false | _ => match rid_cmp k y with Lt => true | _ => false end end
  | Gt => match rid_cmp x k with Gt => (match rid_cmp k y with Lt => true | _ => false end) | _ => true end
  end.
Fixpoint om_insert (e : entry) (l : list entry) : list entry :=
  match l with
  | [] => [e]
  | x :: r => match eid_cmp e x with
              | Lt => e :: l
              | Eq => e :: r
              | Gt => x :: om_insert e r
              end
  end.
Definition om_put (S : list entry) (e : entry) : list entry * outcome :=
  if existsb (fun p => rel p e) S then (S, NotInserted)
  else (om_insert e (filter (fun c => negb (rel e c)) S), Inserted (nlen (filter (fun c => rel e c) S))).
Definition om_ops : store_ops (list entry) :=
  mkOps (fun S => match S with e :: _ => entry_rid e | [] => default_id end)
        (fun S x y => filter (fun e => range_contains x y (entry_rid e)) S)
        om_put.

(** ---- sync.rs: sync_process_message and a two-party session ---- *)
Record outcome_counts := mkOC { oc_recv : N; oc_sent : N }.

Section Sync.
  Variable key_succ : bytes -> option bytes.
  Variable EH MAX_FUTURE : N.
  Variable max_set_size split_factor : N.
  Definition MISSING : N := 2.   (* ContentStatus::Missing: no content-status callback is set *)

  (** The number paired with an entry in an item part is [content_status + 4 * b] where [b] = 1
      iff the entry's signatures do NOT verify (or a key is not a curve point): signature
      validity is an attribute of the wire value that the content-only model entry cannot carry.
      Real content statuses are 0..2. The callback validates as the remote-insert path does:
      emptiness, namespace, signatures, future bound. *)
  Definition sig_bit_ok (st : N) : bool := negb (N.testbit st 2).
  Definition sync_validate (now ns : N) (_ : tables) (e : entry) (st : N) : bool :=
    validate_empty EH e &&
    match validate_entry MAX_FUTURE now ns (mkW e (sig_bit_ok st)) false with None => true | Some _ => false end.

  (** one [Replica::sync_process_message] call: new tables, reply, counters, events *)
  Definition sync_process (T : tables) (now ns : N) (from : N)
             (oc : outcome_counts) (m : message)
    : tables * option message * outcome_counts * list event :=
    let '(T', reply, ins) :=
      process_message (fs_ops key_succ EH ns) max_set_size split_factor (fun _ => MISSING)
                      (sync_validate now ns) T m in
    let pol := get_policy T ns in
    let evs := map (fun es => RemoteInsert (fst es) from (policy_matches pol (e_key (fst es))) (snd es mod 4)) ins in
    let oc' := mkOC (oc_recv oc + value_count m)
                    (oc_sent oc + match reply with Some r => value_count r | None => 0 end) in
    (T', reply, oc', evs).

  (** alternate until one side has nothing to answer; [turn = true]: B processes next.
      Returns the transcript (without the initial message), or [None] when the fuel runs out. *)
  Fixpoint session (fuel : nat) (now nsA nsB : N) (TA TB : tables) (ocA ocB : outcome_counts)
           (m : message) (turn_b : bool) (acc : list message)
    : option (tables * tables * outcome_counts * outcome_counts * list message) :=
    match fuel with
    | O => None
    | S f =>
        if turn_b then
          let '(TB', reply, ocB', _) := sync_process TB now nsB 0 ocB m in
          match reply with
          | None => Some (TA, TB', ocA, ocB', rev acc)
          | Some r => session f now nsA nsB TA TB' ocA ocB' r false (r :: acc)
          end
        else
          let '(TA', reply, ocA', _) := sync_process TA now nsA 0 ocA m in
          match reply with
          | None => Some (TA', TB, ocA', ocB, rev acc)
          | Some r => session f now nsA nsB TA' TB ocA' ocB r true (r :: acc)
          end
    end.
End Sync.

(** ---- the same alternation over the plain ordered list, for any validation predicate ---- *)
Section ListSession.
  Variables (max_set_size split_factor : N) (v : entry -> N -> bool).
  Definition list_process (S : list entry) (m : message) :=
    process_message om_ops max_set_size split_factor (fun _ => MISSING) (fun _ e st => v e st) S m.
  Fixpoint list_session (fuel : nat) (SA SB : list entry) (m : message) (turn_b : bool)
           (acc : list message) : option (list entry * list entry * list message) :=
    match fuel with
    | O => None
    | S f =>
        if turn_b then
          let '(SB', reply, _) := list_process SB m in
          match reply with None => Some (SA, SB', rev acc) | Some r => list_session f SA SB' r false (r :: acc) end
        else
          let '(SA', reply, _) := list_process SA m in
          match reply with None => Some (SA', SB, rev acc) | Some r => list_session f SA' SB r true (r :: acc) end
    end.
End ListSession.
