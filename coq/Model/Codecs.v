(** The crate's own wire types over the postcard primitives: signed entries, reconciliation
    messages, the sync codec's messages and frames, author heads, capabilities, download
    policies. Byte-level wire values ([wentry] etc.) carry the signature bytes. No proofs. *)
From ID Require Export Model.Postcard Model.Tables.

Record wentry := mkWE {
  we_asig : bytes;    (* 64 bytes: author signature (first on the wire) *)
  we_nsig : bytes;    (* 64 bytes: namespace signature *)
  we_id : bytes;      (* >= 64 bytes: namespace ‖ author ‖ key *)
  we_len : N;
  we_hash : bytes;    (* 32 bytes *)
  we_ts : N }.

Definition enc_wentry (e : wentry) : bytes :=
  we_asig e ++ we_nsig e ++ enc_bytes (we_id e) ++ enc_varint (we_len e) ++ we_hash e ++ enc_varint (we_ts e).
Definition dec_wentry : parser wentry := fun b =>
  match take 64 b with
  | Some (asig, b1) =>
    match take 64 b1 with
    | Some (nsig, b2) =>
      match dec_bytes b2 with
      | Some (id, b3) =>
        if Nat.ltb (length id) 64 then None else     (* record identifiers carry both 32-byte ids *)
        match dec_varint_u64 b3 with
        | Some (len, b4) =>
          match take 32 b4 with
          | Some (h, b5) =>
            match dec_varint_u64 b5 with
            | Some (ts, b6) => Some (mkWE asig nsig id len h ts, b6)
            | None => None
            end
          | None => None
          end
        | None => None
        end
      | None => None
      end
    | None => None
    end
  | None => None
  end.

Inductive wpart :=
  | WFp (x y : bytes) (fp : bytes)
  | WItem (x y : bytes) (values : list (wentry * N)) (have_local : bool).
Definition wmessage := list wpart.

Definition enc_rid (id : bytes) := enc_bytes id.
Definition dec_rid : parser bytes := fun b =>
  match dec_bytes b with
  | Some (id, r) => if Nat.ltb (length id) 64 then None else Some (id, r)
  | None => None
  end.

Definition enc_value (v : wentry * N) : bytes := enc_wentry (fst v) ++ enc_varint (snd v).
Definition dec_value : parser (wentry * N) := fun b =>
  match dec_wentry b with
  | Some (e, r) =>
      match dec_varint_u32 r with
      | Some (st, r') => if st <? 3 then Some ((e, st), r') else None
      | None => None
      end
  | None => None
  end.

Definition enc_wpart (p : wpart) : bytes :=
  match p with
  | WFp x y fp => enc_varint 0 ++ enc_rid x ++ enc_rid y ++ fp
  | WItem x y vs hl => enc_varint 1 ++ enc_rid x ++ enc_rid y ++ enc_seq enc_value vs ++ enc_bool hl
  end.
Definition dec_wpart : parser wpart := fun b =>
  match dec_varint_u32 b with
  | Some (tag, b1) =>
    match dec_rid b1 with
    | Some (x, b2) =>
      match dec_rid b2 with
      | Some (y, b3) =>
        if tag =? 0 then
          match take 32 b3 with Some (fp, b4) => Some (WFp x y fp, b4) | None => None end
        else if tag =? 1 then
          match dec_seq dec_value b3 with
          | Some (vs, b4) => match dec_bool b4 with Some (hl, b5) => Some (WItem x y vs hl, b5) | None => None end
          | None => None
          end
        else None
      | None => None
      end
    | None => None
    end
  | None => None
  end.
Definition enc_wmessage (m : wmessage) : bytes := enc_seq enc_wpart m.
Definition dec_wmessage : parser wmessage := dec_seq dec_wpart.

(** net/codec.rs [Message] *)
Inductive cmsg :=
  | CInit (ns : bytes) (m : wmessage)
  | CSync (m : wmessage)
  | CAbort (reason : N).
Definition enc_cmsg (c : cmsg) : bytes :=
  match c with
  | CInit ns m => enc_varint 0 ++ ns ++ enc_wmessage m
  | CSync m => enc_varint 1 ++ enc_wmessage m
  | CAbort r => enc_varint 2 ++ enc_varint r
  end.
Definition dec_cmsg : parser cmsg := fun b =>
  match dec_varint_u32 b with
  | Some (tag, b1) =>
      if tag =? 0 then
        match take 32 b1 with
        | Some (ns, b2) => match dec_wmessage b2 with Some (m, b3) => Some (CInit ns m, b3) | None => None end
        | None => None
        end
      else if tag =? 1 then
        match dec_wmessage b1 with Some (m, b2) => Some (CSync m, b2) | None => None end
      else if tag =? 2 then
        match dec_varint_u32 b1 with
        | Some (r, b2) => if r <? 3 then Some (CAbort r, b2) else None
        | None => None
        end
      else None
  | None => None
  end.

(** ---- frames: 4-byte big-endian length, then the payload ---- *)
Definition be32 (n : N) : bytes := [n / 16777216 mod 256; n / 65536 mod 256; n / 256 mod 256; n mod 256].
Definition be32_val (b : bytes) : N := fold_left (fun acc x => acc * 256 + x) b 0.
Definition frame (payload : bytes) : bytes := be32 (N.of_nat (length payload)) ++ payload.

Inductive frame_res := NeedMore | FrameErr | Frame (payload rest : bytes).
(** [SyncCodec::decode] up to the payload: what the decoder does with the buffer *)
Definition frame_decode (max_size : N) (buf : bytes) : frame_res :=
  match take 4 buf with
  | None => NeedMore
  | Some (hd, rest) =>
      let n := be32_val hd in
      if max_size <? n then FrameErr
      else if N.of_nat (length rest) <? n then NeedMore
      else match take (N.to_nat n) rest with
           | None => NeedMore
           | Some (payload, rest') => Frame payload rest'
           end
  end.

(** feed a buffer to the decoder until it needs more data or fails; returns the decoded
    payload-level messages, the unread rest, and whether an error occurred *)
Fixpoint decode_all (max_size : N) (fuel : nat) (buf : bytes) : list cmsg * bytes * bool :=
  match fuel with
  | O => ([], buf, false)
  | S f =>
      match frame_decode max_size buf with
      | NeedMore => ([], buf, false)
      | FrameErr => ([], buf, true)
      | Frame payload rest =>
          match dec_cmsg payload with
          | None => ([], buf, true)
          | Some (m, _) => let '(ms, r, e) := decode_all max_size f rest in (m :: ms, r, e)
          end
      end
  end.
(** a stream delivered in chunks: the decoder is run after every chunk on what is buffered *)
Fixpoint feed_chunks (max_size : N) (buf : bytes) (chunks : list bytes) : list cmsg * bytes * bool :=
  match chunks with
  | [] => ([], buf, false)
  | c :: cs =>
      let '(ms, rest, err) := decode_all max_size (S (length (buf ++ c))) (buf ++ c) in
      if err then (ms, rest, true)
      else let '(ms', rest', err') := feed_chunks max_size rest cs in (ms ++ ms', rest', err')
  end.

(** [Decoder::decode_eof] (tokio-util's default, which the codec keeps): at the end of the stream
    leftover bytes are an error *)
Definition eof_error (rest : bytes) : bool := match rest with [] => false | _ => true end.

(** ---- author heads: Vec<(u64, [u8;32])> ---- *)
Definition enc_head (h : N * bytes) : bytes := enc_varint (fst h) ++ snd h.
Definition dec_head : parser (N * bytes) := fun b =>
  match dec_varint_u64 b with
  | Some (t, r) => match take 32 r with Some (a, r') => Some ((t, a), r') | None => None end
  | None => None
  end.
Definition enc_heads (l : list (N * bytes)) : bytes := enc_seq enc_head l.
Definition dec_heads : parser (list (N * bytes)) := dec_seq dec_head.

(** ---- download policy ---- *)
Definition enc_filter (f : filter_kind) : bytes :=
  match f with FPrefix b => enc_varint 0 ++ enc_bytes b | FExact b => enc_varint 1 ++ enc_bytes b end.
Definition dec_filter : parser filter_kind := fun b =>
  match dec_varint_u32 b with
  | Some (tag, r) =>
      match dec_bytes r with
      | Some (v, r') => if tag =? 0 then Some (FPrefix v, r') else if tag =? 1 then Some (FExact v, r') else None
      | None => None
      end
  | None => None
  end.
Definition enc_policy (p : policy) : bytes :=
  match p with
  | NothingExcept fs => enc_varint 0 ++ enc_seq enc_filter fs
  | EverythingExcept fs => enc_varint 1 ++ enc_seq enc_filter fs
  end.
Definition dec_policy : parser policy := fun b =>
  match dec_varint_u32 b with
  | Some (tag, r) =>
      match dec_seq dec_filter r with
      | Some (fs, r') => if tag =? 0 then Some (NothingExcept fs, r') else if tag =? 1 then Some (EverythingExcept fs, r') else None
      | None => None
      end
  | None => None
  end.

(** ---- capability: raw form (kind byte, 32 bytes) and the postcard form used in tickets ---- *)
Definition cap_from_raw (WRITE READ kind : N) (b : bytes) : option (bool * bytes) :=
  if kind =? WRITE then Some (true, b) else if kind =? READ then Some (false, b) else None.
Definition cap_raw (WRITE READ : N) (c : bool * bytes) : N * bytes := (if fst c then WRITE else READ, snd c).

(** ---- keys.rs: the text form of author and namespace keys: 64 hex digits (either case) of the
         32 key bytes ([hex::decode_to_slice] into a 32-byte array: any other length, an odd length
         or a character that is no hex digit is an error) ---- *)
Definition hex_val (c : N) : option N :=
  if (48 <=? c) && (c <=? 57) then Some (c - 48)
  else if (97 <=? c) && (c <=? 102) then Some (c - 87)
  else if (65 <=? c) && (c <=? 70) then Some (c - 55)
  else None.
Fixpoint hex_decode (l : bytes) : option bytes :=
  match l with
  | [] => Some []
  | [_] => None
  | a :: b :: r =>
      match hex_val a, hex_val b, hex_decode r with
      | Some x, Some y, Some t => Some (16 * x + y :: t)
      | _, _, _ => None
      end
  end.
Definition key_of_text (t : bytes) : option bytes :=
  match hex_decode t with
  | Some b => if Nat.eqb (length b) 32 then Some b else None
  | None => None
  end.
(** [hex::encode]: two lower-case digits per byte *)
Definition hex_digit (d : N) : N := if d <? 10 then 48 + d else 87 + d.
Definition hex_encode (b : bytes) : bytes := flat_map (fun x => [hex_digit (x / 16); hex_digit (x mod 16)]) b.
