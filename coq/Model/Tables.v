(** redb tables as key-sorted association lists. The ordering of rows and the meaning of a
    range scan (all rows whose key lies within the bounds, ascending) are what the model
    assumes of redb; everything computed *from* them (bounds, loops, filters) is modelled
    from the crate's code. No proofs in this file. *)
From ID Require Export Model.Entry.

Inductive bound (K : Type) := Incl (k : K) | Excl (k : K) | Unb.
Arguments Incl {K} k. Arguments Excl {K} k. Arguments Unb {K}.

Section Tbl.
  Context {K V : Type} (cmp : K -> K -> comparison).

  Fixpoint tbl_insert (k : K) (v : V) (l : list (K * V)) : list (K * V) :=
    match l with
    | [] => [(k, v)]
    | (k', v') :: r =>
        match cmp k k' with
        | Lt => (k, v) :: l
        | Eq => (k, v) :: r
        | Gt => (k', v') :: tbl_insert k v r
        end
    end.

  Fixpoint tbl_get (k : K) (l : list (K * V)) : option V :=
    match l with
    | [] => None
    | (k', v') :: r => match cmp k k' with Eq => Some v' | _ => tbl_get k r end
    end.

  Definition tbl_remove (k : K) (l : list (K * V)) : list (K * V) :=
    filter (fun kv => match cmp k (fst kv) with Eq => false | _ => true end) l.

  Definition ge_lo (lo : bound K) (k : K) : bool :=
    match lo with
    | Incl b => match cmp b k with Gt => false | _ => true end
    | Excl b => match cmp b k with Lt => true | _ => false end
    | Unb => true
    end.
  Definition le_hi (hi : bound K) (k : K) : bool :=
    match hi with
    | Incl b => match cmp k b with Gt => false | _ => true end
    | Excl b => match cmp k b with Lt => true | _ => false end
    | Unb => true
    end.
  Definition in_bounds (lo hi : bound K) (k : K) : bool := ge_lo lo k && le_hi hi k.

  (** [table.range(lo, hi)] *)
  Definition tbl_range (lo hi : bound K) (l : list (K * V)) : list (K * V) :=
    filter (fun kv => in_bounds lo hi (fst kv)) l.
  (** [table.retain_in(range, |_,_| false)] : delete every row in the range *)
  Definition tbl_delete_range (lo hi : bound K) (l : list (K * V)) : list (K * V) :=
    filter (fun kv => negb (in_bounds lo hi (fst kv))) l.
  (** [table.extract_from_if(range, pred).count()] *)
  Definition tbl_extract_if (lo hi : bound K) (p : K -> V -> bool) (l : list (K * V))
    : list (K * V) * N :=
    (filter (fun kv => negb (in_bounds lo hi (fst kv) && p (fst kv) (snd kv))) l,
     N.of_nat (length (filter (fun kv => in_bounds lo hi (fst kv) && p (fst kv) (snd kv)) l))).
End Tbl.

(** keys of the tables *)
Definition rid := (N * N * bytes)%type.         (* records: (namespace, author, key) *)
Definition kid := (N * bytes * N)%type.         (* records-by-key: (namespace, key, author) *)
Definition rid_cmp (a b : rid) : comparison :=
  let '(n1, a1, k1) := a in let '(n2, a2, k2) := b in id_cmp n1 a1 k1 n2 a2 k2.
Definition kid_cmp (a b : kid) : comparison :=
  let '(n1, k1, a1) := a in let '(n2, k2, a2) := b in
  match n1 ?= n2 with
  | Eq => match lex_cmp k1 k2 with Eq => a1 ?= a2 | c => c end
  | c => c
  end.
Definition pair_cmp (a b : N * N) : comparison :=
  match fst a ?= fst b with Eq => snd a ?= snd b | c => c end.
Definition triple_cmp (a b : N * N * N) : comparison :=
  match pair_cmp (fst a) (fst b) with Eq => snd a ?= snd b | c => c end.

(** value of a records row: (timestamp, len, hash); signatures are not modelled *)
Definition rval := (N * N * N)%type.
Definition row_entry (r : rid * rval) : entry :=
  let '((ns, au, k), (ts, len, h)) := r in mkE ns au k ts len h.
Definition entry_rid (e : entry) : rid := (e_ns e, e_author e, e_key e).
Definition entry_rval (e : entry) : rval := (e_ts e, e_len e, e_hash e).

(** capability stored per namespace: [Some secret] = write, [None] = read-only *)
Definition cap := option N.

Inductive filter_kind := FPrefix (p : bytes) | FExact (p : bytes).
Inductive policy := NothingExcept (fs : list filter_kind) | EverythingExcept (fs : list filter_kind).

Record tables := mkT {
  t_records : list (rid * rval);
  t_bykey : list (kid * unit);
  t_latest : list ((N * N) * (N * bytes));      (* (ns, author) -> (timestamp, key) *)
  t_namespaces : list (N * cap);
  t_peers : list (N * list (N * N));             (* multimap ns -> values (nanos, peer), ascending *)
  t_policy : list (N * policy);
  t_authors : list (N * N) }.

Definition empty_tables : tables := mkT [] [] [] [] [] [] [].

Definition set_records T r := mkT r (t_bykey T) (t_latest T) (t_namespaces T) (t_peers T) (t_policy T) (t_authors T).
Definition set_bykey T r := mkT (t_records T) r (t_latest T) (t_namespaces T) (t_peers T) (t_policy T) (t_authors T).
Definition set_latest T r := mkT (t_records T) (t_bykey T) r (t_namespaces T) (t_peers T) (t_policy T) (t_authors T).
Definition set_namespaces T r := mkT (t_records T) (t_bykey T) (t_latest T) r (t_peers T) (t_policy T) (t_authors T).
Definition set_peers T r := mkT (t_records T) (t_bykey T) (t_latest T) (t_namespaces T) r (t_policy T) (t_authors T).
Definition set_policy T r := mkT (t_records T) (t_bykey T) (t_latest T) (t_namespaces T) (t_peers T) r (t_authors T).
Definition set_authors T r := mkT (t_records T) (t_bykey T) (t_latest T) (t_namespaces T) (t_peers T) (t_policy T) r.
