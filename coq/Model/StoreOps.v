(** store/fs.rs as a state machine over the whole store (several documents): capability
    import/merge, open/close, removal, replica writes, per-document settings (useful peers,
    download policy), author heads and news detection, content hashes, reopen.
    No proofs in this file. *)
From ID Require Export Model.Ranger Model.Policy Model.Query Model.Heads.

Record sstate := mkS { s_tables : tables; s_open : list N; s_clock : N (* peer-registration clock *) }.
Definition sinit : sstate := mkS empty_tables [] 1.

Inductive import_outcome := ImpInserted | ImpUpgraded | ImpNoChange.

Inductive sop :=
  | SImport (ns : N) (secret : option N)                 (* Capability::Write(secret) / Read *)
  | SOpen (ns : N)
  | SClose (ns : N)
  | SRemove (ns : N)
  | SInsert (ns au : N) (k : bytes) (hash len now : N)
  | SDelete (ns au : N) (k : bytes) (now : N)
  | SRemote (ns : N) (e : entry) (sig_ok : bool) (now : N)
  | SRawPut (e : entry)                                  (* ranger put without validation (hook) *)
  | SRegisterPeer (ns peer : N)
  | SGetPeers (ns : N)
  | SSetPolicy (ns : N) (p : policy)
  | SGetPolicy (ns : N)
  | SHeads (ns : N)
  | SHasNews (ns : N) (heads : list (N * N))             (* (author, timestamp), one per author *)
  | SContentHashes
  | SListNamespaces
  | SGetAll (ns : N)
  | SReopen
  | SWipeReopen (latest bykey : bool)                    (* delete derived tables in the file (as an older version's database lacks them), reopen *)
  | SQuery (ns : N) (q : query)
  | SMatches (p : policy) (k : bytes)                   (* DownloadPolicy::matches *)
  | SFilterText (f : filter_kind) (is_utf8 : bool)       (* to_string, then parse back *)
  | SFilterParse (t : bytes)
  | SHeadsEncode (heads : list (N * N)) (limit : option N).   (* AuthorHeads::encode(limit), heads ascending by author *)                            (* FromStr on arbitrary text *)

Inductive sres :=
  | RImport (o : import_outcome)
  | RUnit                      (* Ok(()) *)
  | RFail                      (* Err(_) for store-level refusals *)
  | RNotFound
  | RInsert (r : result)
  | RPut (o : option N)
  | RPeers (l : option (list N))
  | RPolicy (p : policy)
  | RHeads (l : list (N * N * bytes))   (* (author, timestamp, key of the head entry) ascending by author *)
  | RNews (n : N)               (* 0 = None *)
  | RHashes (l : list N)
  | RNamespaces (l : list (N * bool))   (* (id, writable) *)
  | REntries (l : list entry)
  | RBool (b : bool)
  | RText (t : bytes) (back : option filter_kind)
  | RFilter (f : option filter_kind)
  | RHeadItems (items : list (N * N)) (len : N)
  | RBadFingerprint
  | RPanic.                     (* the call panicked (never an answer of the model) *)            (* get_all answered, but the store's whole-document fingerprint is not the fingerprint of the answer *)   (* decoded (timestamp, author) items of the encoding, and its length in bytes *)

Section StoreOps.
  Variable key_succ : bytes -> option bytes.
  Variables EH MAX_FUTURE PEERS_CAP : N.

  Definition mem (x : N) (l : list N) : bool := existsb (N.eqb x) l.
  Definition remove_n (x : N) (l : list N) : list N := filter (fun y => negb (x =? y)) l.
  Definition add_n (x : N) (l : list N) : list N := if mem x l then l else x :: l.

  Definition get_cap (T : tables) (ns : N) : option cap := tbl_get N.compare ns (t_namespaces T).

  (** [import_namespace] with [Capability::merge] *)
  Definition import_namespace (T : tables) (ns : N) (c : cap) : tables * import_outcome :=
    match get_cap T ns with
    | Some existing =>
        match existing, c with
        | None, Some sk => (set_namespaces T (tbl_insert N.compare ns (Some sk) (t_namespaces T)), ImpUpgraded)
        | _, _ => (set_namespaces T (tbl_insert N.compare ns existing (t_namespaces T)), ImpNoChange)
        end
    | None => (set_namespaces T (tbl_insert N.compare ns c (t_namespaces T)), ImpInserted)
    end.

  (** [remove_replica]: every table that is keyed by the namespace *)
  Definition remove_replica (T : tables) (ns : N) : tables :=
    let rb := rb_namespace ns in
    let kb := kb_namespace ns in
    let T1 := set_records T (tbl_delete_range rid_cmp (fst rb) (snd rb) (t_records T)) in
    let T2 := set_bykey T1 (tbl_delete_range kid_cmp (fst kb) (snd kb) (t_bykey T1)) in
    let T3 := set_latest T2 (tbl_delete_range pair_cmp (Incl (ns, 0)) (Incl (ns, MAX256)) (t_latest T2)) in
    let T4 := set_namespaces T3 (tbl_remove N.compare ns (t_namespaces T3)) in
    let T5 := set_peers T4 (tbl_remove N.compare ns (t_peers T4)) in
    set_policy T5 (tbl_remove N.compare ns (t_policy T5)).

  (** the multimap values of one document, ascending by (nanos, peer) *)
  Definition peers_of (T : tables) (ns : N) : list (N * N) :=
    match tbl_get N.compare ns (t_peers T) with Some l => l | None => [] end.
  Fixpoint vals_insert (v : N * N) (l : list (N * N)) : list (N * N) :=
    match l with
    | [] => [v]
    | x :: r => match pair_cmp v x with
                | Lt => v :: l
                | Eq => l
                | Gt => x :: vals_insert v r
                end
    end.
  Definition vals_remove (v : N * N) (l : list (N * N)) : list (N * N) :=
    filter (fun x => match pair_cmp v x with Eq => false | _ => true end) l.
  Definition set_vals (T : tables) (ns : N) (l : list (N * N)) : tables :=
    set_peers T (match l with
                 | [] => tbl_remove N.compare ns (t_peers T)
                 | _ => tbl_insert N.compare ns l (t_peers T)
                 end).
  Definition peer_insert (T : tables) (ns nanos p : N) : tables :=
    set_vals T ns (vals_insert (nanos, p) (peers_of T ns)).
  Definition peer_remove (T : tables) (ns nanos p : N) : tables :=
    set_vals T ns (vals_remove (nanos, p) (peers_of T ns)).

  (** [register_useful_peer], branch for branch *)
  Definition register_useful_peer (T : tables) (ns p nanos : N) : option tables :=
    match get_cap T ns with
    | None => None
    | Some _ =>
        match peers_of T ns with
        | [] => Some (peer_insert T ns nanos p)
        | (on, op) :: rest =>
            if op =? p then Some (peer_insert (peer_remove T ns on op) ns nanos p)
            else
              let len := 1 + N.of_nat (length rest) in
              match find (fun q => snd q =? p) rest with
              | Some (pn, _) => Some (peer_insert (peer_remove T ns pn p) ns nanos p)
              | None =>
                  let T' := peer_insert T ns nanos p in
                  if PEERS_CAP <? len + 1 then Some (peer_remove T' ns on op) else Some T'
              end
        end
    end.
  Definition get_sync_peers (T : tables) (ns : N) : option (list N) :=
    match rev (map snd (peers_of T ns)) with [] => None | l => Some l end.

  Definition heads_of (T : tables) (ns : N) : list (N * N) :=
    map (fun r => (snd (fst r), fst (snd r)))
        (tbl_range pair_cmp (Incl (ns, 0)) (Incl (ns, MAX256)) (t_latest T)).
  (** [Store::get_latest_for_each_author]: author, timestamp and key of the head entry *)
  Definition heads_full_of (T : tables) (ns : N) : list (N * N * bytes) :=
    map (fun r => (snd (fst r), fst (snd r), snd (snd r)))
        (tbl_range pair_cmp (Incl (ns, 0)) (Incl (ns, MAX256)) (t_latest T)).
  (** [AuthorHeads::has_news_for] *)
  Definition has_news (theirs ours : list (N * N)) : N :=
    N.of_nat (length (filter (fun h => match find (fun o => fst o =? fst h) ours with
                                       | Some o => snd o <? snd h
                                       | None => true
                                       end) theirs)).

  (** store/fs/migrations.rs. 001: if the head table is empty and there are records, rebuild it:
      per (namespace, author) the greatest timestamp, the last such row in key order on ties.
      004: if the by-key index is empty, rebuild it from the records. *)
  Definition migrate_latest (T : tables) : tables :=
    match t_latest T, t_records T with
    | [], _ :: _ =>
        set_latest T
          (fold_left (fun acc r =>
                        let '((ns, au, k), (ts, _, _)) := r in
                        match tbl_get pair_cmp (ns, au) acc with
                        | Some (t0, _) => if t0 <=? ts then tbl_insert pair_cmp (ns, au) (ts, k) acc else acc
                        | None => tbl_insert pair_cmp (ns, au) (ts, k) acc
                        end) (t_records T) [])
    | _, _ => T
    end.
  Definition migrate_bykey (T : tables) : tables :=
    match t_bykey T with
    | [] => set_bykey T (fold_left (fun acc r => let '((ns, au, k), _) := r in tbl_insert kid_cmp (ns, k, au) tt acc)
                                   (t_records T) [])
    | _ => T
    end.
  Definition open_store (T : tables) : tables := migrate_bykey (migrate_latest T).

  Definition writable (T : tables) (ns : N) : option bool :=
    match get_cap T ns with Some (Some _) => Some true | Some None => Some false | None => None end.

  Definition store_step (s : sstate) (o : sop) : sstate * sres :=
    let T := s_tables s in
    let upd T' := mkS T' (s_open s) (s_clock s) in
    match o with
    | SImport ns c => let '(T', r) := import_namespace T ns c in (upd T', RImport r)
    | SOpen ns =>
        match get_cap T ns with
        | Some _ => (mkS T (add_n ns (s_open s)) (s_clock s), RUnit)
        | None => (s, RNotFound)
        end
    | SClose ns => (mkS T (remove_n ns (s_open s)) (s_clock s), RUnit)
    | SRemove ns => if mem ns (s_open s) then (s, RFail) else (upd (remove_replica T ns), RUnit)
    | SInsert ns au k h l now =>
        match writable T ns with
        | None => (s, RNotFound)
        | Some w => let '(T', r, _) := replica_insert key_succ EH MAX_FUTURE T now ns w au k h l in (upd T', RInsert r)
        end
    | SDelete ns au k now =>
        match writable T ns with
        | None => (s, RNotFound)
        | Some w => let '(T', r, _) := replica_delete_prefix key_succ EH MAX_FUTURE T now ns w au k in (upd T', RInsert r)
        end
    | SRemote ns e ok now =>
        match writable T ns with
        | None => (s, RNotFound)
        | Some _ => let '(T', r, _) := replica_insert_remote key_succ EH MAX_FUTURE T now ns (mkW e ok) 0 0 in (upd T', RInsert r)
        end
    | SRawPut e =>
        let '(T', out) := fs_put key_succ EH T e in
        (upd T', RPut (match out with Inserted n => Some n | NotInserted => None end))
    | SRegisterPeer ns p =>
        match register_useful_peer T ns p (s_clock s) with
        | Some T' => (mkS T' (s_open s) (s_clock s + 1), RUnit)
        | None => (mkS T (s_open s) (s_clock s + 1), RFail)
        end
    | SGetPeers ns => (s, RPeers (get_sync_peers T ns))
    | SSetPolicy ns p =>
        match get_cap T ns with
        | Some _ => (upd (set_policy T (tbl_insert N.compare ns p (t_policy T))), RUnit)
        | None => (s, RFail)
        end
    | SGetPolicy ns => (s, RPolicy (get_policy T ns))
    | SHeads ns => (s, RHeads (heads_full_of T ns))
    | SHasNews ns heads => (s, RNews (has_news heads (heads_of T ns)))
    | SContentHashes => (s, RHashes (map (fun r => snd (snd r)) (t_records T)))
    | SListNamespaces =>
        (s, RNamespaces (map (fun r => (fst r, match snd r with Some _ => true | None => false end)) (t_namespaces T)))
    | SGetAll ns => (s, REntries (fs_all ns T))
    | SReopen => (mkS (open_store T) [] (s_clock s), RUnit)
    | SWipeReopen l b =>
        let T1 := if l then set_latest T [] else T in
        let T2 := if b then set_bykey T1 [] else T1 in
        (mkS (open_store T2) [] (s_clock s), RUnit)
    | SQuery ns q => (s, REntries (run_query key_succ EH T ns q))
    | SMatches p k => (s, RBool (policy_matches p k))
    | SFilterText f u => (s, RText (filter_display u f) (filter_parse (filter_display u f)))
    | SFilterParse t => (s, RFilter (filter_parse t))
    | SHeadsEncode heads limit =>
        let items := heads_encode_items false heads limit in
        (* a limit below the size of the empty list is an error (after the D15 repair) *)
        (s, match limit with
            | Some L => if L <? items_size [] then RFail else RHeadItems items (items_size items)
            | None => RHeadItems items (items_size items)
            end)
    end.
End StoreOps.
