(** sync.rs: [Replica::insert], [delete_prefix], [insert_remote_entry], [validate_entry],
    [validate_empty], the insert events, and download-policy matching. The clock is an input.
    No proofs in this file. *)
From ID Require Export Model.FsStore.

Inductive err :=
  | EEntryIsEmpty | EClosed | EReadOnly | EInvalidNamespace | EBadSignature | EFuture
  | EInvalidEmpty | ENewerExists | EStore
  | EDecode    (* the bytes do not decode to a value at all *)
  | EPanic.    (* reported by the harness when the implementation panicked; no model ever answers this *)
Inductive result := Ok (removed : N) | Err (e : err).

(** an entry as it arrives from a peer: content + the verdict of signature verification
    (both public keys parse, and both signatures verify over the canonical bytes) *)
Record wire := mkW { w_entry : entry; w_sig_ok : bool }.

Inductive origin := OLocal | OSync (from : N) (status : N).
Inductive event :=
  | LocalInsert (e : entry)
  | RemoteInsert (e : entry) (from : N) (should_download : bool) (status : N).

Definition fmatch (f : filter_kind) (k : bytes) : bool :=
  match f with FPrefix p => is_prefix p k | FExact p => bytes_eqb p k end.
Definition policy_matches (p : policy) (k : bytes) : bool :=
  match p with
  | NothingExcept fs => existsb (fun f => fmatch f k) fs
  | EverythingExcept fs => forallb (fun f => negb (fmatch f k)) fs
  end.
Definition default_policy : policy := EverythingExcept [].

Section Replica.
  Variable key_succ : bytes -> option bytes.
  Variable EH : N.
  Variable MAX_FUTURE : N.   (* MAX_TIMESTAMP_FUTURE_SHIFT, micros *)

  Definition validate_empty (e : entry) : bool := Bool.eqb (e_hash e =? EH) (e_len e =? 0).

  Definition validate_entry (now ns : N) (w : wire) (local : bool) : option err :=
    if negb (e_ns (w_entry w) =? ns) then Some EInvalidNamespace
    else if negb local && negb (w_sig_ok w) then Some EBadSignature
    else if now + MAX_FUTURE <? e_ts (w_entry w) then Some EFuture
    else None.

  Definition get_policy (T : tables) (ns : N) : policy :=
    match tbl_get N.compare ns (t_policy T) with Some p => p | None => default_policy end.

  (** [insert_entry] *)
  Definition insert_entry (T : tables) (now ns : N) (w : wire) (o : origin)
    : tables * result * list event :=
    match validate_entry now ns w (match o with OLocal => true | _ => false end) with
    | Some er => (T, Err er, [])
    | None =>
        match fs_put key_succ EH T (w_entry w) with
        | (_, NotInserted) => (T, Err ENewerExists, [])
        | (T', Inserted n) =>
            let ev := match o with
                      | OLocal => LocalInsert (w_entry w)
                      | OSync from st =>
                          RemoteInsert (w_entry w) from
                            (policy_matches (get_policy T' ns) (e_key (w_entry w))) st
                      end in
            (T', Ok n, [ev])
        end
    end.

  (** [Replica::insert]: write capability required; timestamp = now *)
  Definition replica_insert (T : tables) (now ns : N) (writable : bool)
             (au : N) (k : bytes) (hash len : N) : tables * result * list event :=
    if (len =? 0) || (hash =? EH) then (T, Err EEntryIsEmpty, [])
    else if negb writable then (T, Err EReadOnly, [])
    else insert_entry T now ns (mkW (mkE ns au k now len hash) true) OLocal.

  (** [Replica::delete_prefix] *)
  Definition replica_delete_prefix (T : tables) (now ns : N) (writable : bool)
             (au : N) (k : bytes) : tables * result * list event :=
    if negb writable then (T, Err EReadOnly, [])
    else insert_entry T now ns (mkW (mkE ns au k now 0 EH) true) OLocal.

  (** [Replica::insert_remote_entry] *)
  Definition replica_insert_remote (T : tables) (now ns : N) (w : wire) (from st : N)
    : tables * result * list event :=
    if negb (validate_empty (w_entry w)) then (T, Err EInvalidEmpty, [])
    else insert_entry T now ns w (OSync from st).
End Replica.
