(** store/fs/bounds.rs. [key_succ] is the function used to turn a key prefix into an exclusive
    upper bound; the crate's code is modelled with [key_succ := prefix_succ] (after the D2
    repair; the pinned tree used [inc_carry], kept for Refuted/D2.v). *)
From ID Require Export Model.Tables.

Definition MAX256 : N := 2 ^ 256 - 1.
(** [increment_by_one] on a 32-byte array (value view) *)
Definition succ256 (x : N) : option N := if x <? MAX256 then Some (x + 1) else None.

Inductive kfilter := KAny | KExact (k : bytes) | KPrefix (p : bytes).
Definition kf_matches (f : kfilter) (k : bytes) : bool :=
  match f with KAny => true | KExact x => bytes_eqb x k | KPrefix p => is_prefix p k end.

Section Bounds.
  Variable key_succ : bytes -> option bytes.

  Definition namespace_start (ns : N) : bound rid := Incl (ns, 0, []).
  Definition namespace_end (ns : N) : bound rid :=
    match succ256 ns with Some n' => Excl (n', 0, []) | None => Unb end.
  Definition rb_namespace (ns : N) : bound rid * bound rid := (namespace_start ns, namespace_end ns).

  (** [RecordsBounds::clamped] (after the D14 repair): the part of [start, end) inside the
      namespace; [None] = the start / the end of the namespace. The ends come from the peer and
      may lie in another namespace. *)
  Definition rid_ns (x : rid) : N := fst (fst x).
  Definition rb_clamped (ns : N) (lo hi : option rid) : bound rid * bound rid :=
    let starts_after := match lo with Some x => ns <? rid_ns x | None => false end in
    let ends_before := match hi with Some y => rid_ns y <? ns | None => false end in
    if starts_after || ends_before then (Incl (ns, 0, []), Excl (ns, 0, []))
    else
      ((match lo with Some x => if rid_ns x =? ns then Incl x else namespace_start ns | None => namespace_start ns end),
       (match hi with Some y => if rid_ns y =? ns then Excl y else namespace_end ns | None => namespace_end ns end)).

  (** [RecordsBounds::author_key] *)
  Definition rb_author_key (ns au : N) (f : kfilter) : bound rid * bound rid :=
    let key := match f with KAny => [] | KExact k => k | KPrefix p => p end in
    let start := (ns, au, key) in
    let hi :=
      match f with
      | KExact _ => Incl start
      | _ =>
          match key_succ key with
          | Some k' => Excl (ns, au, k')
          | None =>
              match succ256 au with
              | Some a' => Excl (ns, a', [])
              | None => match succ256 ns with Some n' => Excl (n', 0, []) | None => Unb end
              end
          end
      end in
    (Incl start, hi).
  Definition rb_author_prefix (ns au : N) (p : bytes) := rb_author_key ns au (KPrefix p).

  (** [ByKeyBounds] *)
  Definition kb_namespace (ns : N) : bound kid * bound kid :=
    (Incl (ns, [], 0), match succ256 ns with Some n' => Excl (n', [], 0) | None => Unb end).
  Definition kb_new (ns : N) (f : kfilter) : bound kid * bound kid :=
    match f with
    | KAny => kb_namespace ns
    | KExact k => (Incl (ns, k, 0), Incl (ns, k, MAX256))
    | KPrefix p =>
        (Incl (ns, p, 0),
         match key_succ p with
         | Some k' => Excl (ns, k', 0)
         | None => match succ256 ns with Some n' => Excl (n', [], 0) | None => Unb end
         end)
    end.
End Bounds.
