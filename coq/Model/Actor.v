(** actor.rs: the store actor as a sequential request/reply machine: open/close handle
    counting, the sync switch, subscriptions and event delivery, and the replica / store
    operations gated by them. One request is processed completely before the next (the real
    actor is a single-threaded loop over a FIFO channel — that is the runtime fact the model
    takes for granted). No proofs in this file. *)
From ID Require Export Model.StoreOps.

Record areplica := mkAR {
  ar_handles : N;
  ar_sync : bool;
  ar_subs : list N;        (* subscribed channel ids, in subscription order (duplicates possible) *)
  ar_writable : bool }.    (* capability held by the open replica *)

Record astate := mkA {
  a_tables : tables;
  a_store_open : list N;              (* the store's own open set *)
  a_clock : N;                        (* peer registration clock *)
  a_open : list (N * areplica);
  a_dead : list N }.                  (* channels whose receiver has been dropped *)

Definition ainit (T : tables) : astate := mkA T [] 1 [] [].

Inductive aerr := ANotOpen | ASyncOff | ANotFound | ANotClosed | AInsert (e : err) | AAuthorMissing | AOther.

Inductive aop :=
  | AOpen (ns : N) (sync : bool) (sub : option N)
  | AClose (ns : N)
  | AGetState (ns : N)
  | ASetSync (ns : N) (b : bool)
  | ASubscribe (ns chan : N)
  | AUnsubscribe (ns chan : N)
  | ADropReceiver (chan : N)
  | AInsertLocal (ns au : N) (known_author : bool) (k : bytes) (hash len now : N)
  | ADeletePrefix (ns au : N) (known_author : bool) (k : bytes) (now : N)
  | AInsertRemote (ns : N) (e : entry) (sig_ok : bool) (from st now : N)
  | ASyncInit (ns : N)
  | ASyncProcess (ns : N) (m : message) (from now : N)
  | AGetExact (ns au : N) (k : bytes) (include_empty : bool)
  | AGetAll (ns : N)
  | ADrop (ns : N)
  | AImport (ns : N) (secret : option N)
  | AExportSecret (ns : N)
  | ASetPolicy (ns : N) (p : policy)
  | AGetPolicy (ns : N)
  | ARegisterPeer (ns peer : N)
  | AGetPeers (ns : N)
  | AHasNews (ns : N) (heads : list (N * N)).

Inductive ares :=
  | AOk
  | AErr (e : aerr)
  | ABool (b : bool)
  | AState (sync : bool) (subscribers handles : N)
  | ACount (n : N)
  | AMsg (m : message)
  | AReply (m : option message) (recv sent : N)
  | AEntry (e : option entry)
  | AEntries (l : list entry)
  | APolicy (p : policy)
  | APeers (l : option (list N))
  | ANews (n : N).

(** events delivered by one request: (channel, event) in delivery order *)
Definition deliveries := list (N * event).

Section Actor.
  Variable key_succ : bytes -> option bytes.
  Variables EH MAX_FUTURE PEERS_CAP mss split : N.

  Definition aget (s : astate) (ns : N) : option areplica :=
    match find (fun p => fst p =? ns) (a_open s) with Some p => Some (snd p) | None => None end.
  Definition aset (s : astate) (ns : N) (r : areplica) : list (N * areplica) :=
    (ns, r) :: filter (fun p => negb (fst p =? ns)) (a_open s).
  Definition adel (s : astate) (ns : N) : list (N * areplica) :=
    filter (fun p => negb (fst p =? ns)) (a_open s).

  Definition with_open (s : astate) (l : list (N * areplica)) : astate :=
    mkA (a_tables s) (a_store_open s) (a_clock s) l (a_dead s).
  Definition with_tables (s : astate) (T : tables) : astate :=
    mkA T (a_store_open s) (a_clock s) (a_open s) (a_dead s).

  (** [Subscribers::send]: deliver to every live subscriber, forget the dead ones *)
  Definition deliver (s : astate) (ns : N) (evs : list event) : astate * deliveries :=
    match aget s ns with
    | None => (s, [])
    | Some r =>
        match evs with
        | [] => (s, [])
        | _ =>
            let live := filter (fun c => negb (mem c (a_dead s))) (ar_subs r) in
            (with_open s (aset s ns (mkAR (ar_handles r) (ar_sync r) live (ar_writable r))),
             flat_map (fun ev => map (fun c => (c, ev)) live) evs)
        end
    end.

  (** releasing one handle; [true] = the document is closed afterwards *)
  Definition aclose (s : astate) (ns : N) : astate * bool :=
    match aget s ns with
    | None => (mkA (a_tables s) (remove_n ns (a_store_open s)) (a_clock s) (a_open s) (a_dead s), true)
    | Some r =>
        if ar_handles r =? 1
        then (mkA (a_tables s) (remove_n ns (a_store_open s)) (a_clock s) (adel s ns) (a_dead s), true)
        else (with_open s (aset s ns (mkAR (ar_handles r - 1) (ar_sync r) (ar_subs r) (ar_writable r))), false)
    end.

  Definition map_insert_result (r : result) : ares :=
    match r with Ok n => ACount n | Err e => AErr (AInsert e) end.

  Definition astep (s : astate) (o : aop) : astate * ares * deliveries :=
    let T := a_tables s in
    match o with
    | AOpen ns sync sub =>
        match aget s ns with
        | Some r =>
            let subs := match sub with Some c => ar_subs r ++ [c] | None => ar_subs r end in
            (with_open s (aset s ns (mkAR (ar_handles r + 1) (ar_sync r || sync) subs (ar_writable r))), AOk, [])
        | None =>
            match writable T ns with
            | None => (s, AErr ANotFound, [])
            | Some w =>
                let subs := match sub with Some c => [c] | None => [] end in
                (mkA T (add_n ns (a_store_open s)) (a_clock s) (aset s ns (mkAR 1 sync subs w)) (a_dead s), AOk, [])
            end
        end
    | AClose ns => let '(s', b) := aclose s ns in (s', ABool b, [])
    | AGetState ns =>
        match aget s ns with
        | Some r => (s, AState (ar_sync r) (N.of_nat (length (ar_subs r))) (ar_handles r), [])
        | None => (s, AErr ANotOpen, [])
        end
    | ASetSync ns b =>
        match aget s ns with
        | Some r => (with_open s (aset s ns (mkAR (ar_handles r) b (ar_subs r) (ar_writable r))), AOk, [])
        | None => (s, AErr ANotOpen, [])
        end
    | ASubscribe ns c =>
        match aget s ns with
        | Some r => (with_open s (aset s ns (mkAR (ar_handles r) (ar_sync r) (ar_subs r ++ [c]) (ar_writable r))), AOk, [])
        | None => (s, AErr ANotOpen, [])
        end
    | AUnsubscribe ns c =>
        match aget s ns with
        | Some r => (with_open s (aset s ns (mkAR (ar_handles r) (ar_sync r) (remove_n c (ar_subs r)) (ar_writable r))), AOk, [])
        | None => (s, AErr ANotOpen, [])
        end
    | ADropReceiver c => (mkA T (a_store_open s) (a_clock s) (a_open s) (add_n c (a_dead s)), AOk, [])
    | AInsertLocal ns au known k h l now =>
        if negb known then (s, AErr AAuthorMissing, [])
        else match aget s ns with
             | None => (s, AErr ANotOpen, [])
             | Some r =>
                 let '(T', res, evs) := replica_insert key_succ EH MAX_FUTURE T now ns (ar_writable r) au k h l in
                 let '(s', d) := deliver (with_tables s T') ns evs in
                 (s', match res with Ok _ => AOk | Err e => AErr (AInsert e) end, d)
             end
    | ADeletePrefix ns au known k now =>
        if negb known then (s, AErr AAuthorMissing, [])
        else match aget s ns with
             | None => (s, AErr ANotOpen, [])
             | Some r =>
                 let '(T', res, evs) := replica_delete_prefix key_succ EH MAX_FUTURE T now ns (ar_writable r) au k in
                 let '(s', d) := deliver (with_tables s T') ns evs in
                 (s', map_insert_result res, d)
             end
    | AInsertRemote ns e ok from st now =>
        match aget s ns with
        | None => (s, AErr ANotOpen, [])
        | Some r =>
            if negb (ar_sync r) then (s, AErr ASyncOff, [])
            else
              let '(T', res, evs) := replica_insert_remote key_succ EH MAX_FUTURE T now ns (mkW e ok) from st in
              let '(s', d) := deliver (with_tables s T') ns evs in
              (s', match res with Ok _ => AOk | Err er => AErr (AInsert er) end, d)
        end
    | ASyncInit ns =>
        match aget s ns with
        | None => (s, AErr ANotOpen, [])
        | Some r => if negb (ar_sync r) then (s, AErr ASyncOff, [])
                    else (s, AMsg (initial_message (fs_ops key_succ EH ns) T), [])
        end
    | ASyncProcess ns m from now =>
        match aget s ns with
        | None => (s, AErr ANotOpen, [])
        | Some r =>
            if negb (ar_sync r) then (s, AErr ASyncOff, [])
            else
              let '(T', reply, oc, evs) := sync_process key_succ EH MAX_FUTURE mss split T now ns from (mkOC 0 0) m in
              (* one [send] per inserted entry: dead subscribers are forgotten at the first one *)
              let '(s', d) := deliver (with_tables s T') ns evs in
              (s', AReply reply (oc_recv oc) (oc_sent oc), d)
        end
    | AGetExact ns au k ie =>
        match aget s ns with
        | None => (s, AErr ANotOpen, [])
        | Some _ => (s, AEntry (fs_get_exact EH T ns au k ie), [])
        end
    | AGetAll ns =>
        match aget s ns with
        | None => (s, AErr ANotOpen, [])
        | Some _ => (s, AEntries (fs_all ns T), [])
        end
    | ADrop ns =>
        let '(s1, _) := aclose s ns in
        if mem ns (a_store_open s1) then (s1, AErr ANotClosed, [])
        else (with_tables s1 (remove_replica (a_tables s1) ns), AOk, [])
    | AImport ns c =>
        let '(T', out) := import_namespace T ns c in
        let s' := with_tables s T' in
        match out, aget s' ns with
        | ImpUpgraded, Some r => (with_open s' (aset s' ns (mkAR (ar_handles r) (ar_sync r) (ar_subs r) true)), AOk, [])
        | _, _ => (s', AOk, [])
        end
    | AExportSecret ns =>
        match aget s ns with
        | None => (s, AErr ANotOpen, [])
        | Some r => (s, if ar_writable r then AOk else AErr (AInsert EReadOnly), [])
        end
    | ASetPolicy ns p =>
        match get_cap T ns with
        | Some _ => (with_tables s (set_policy T (tbl_insert N.compare ns p (t_policy T))), AOk, [])
        | None => (s, AErr AOther, [])
        end
    | AGetPolicy ns => (s, APolicy (get_policy T ns), [])
    | ARegisterPeer ns p =>
        match register_useful_peer PEERS_CAP T ns p (a_clock s) with
        | Some T' => (mkA T' (a_store_open s) (a_clock s + 1) (a_open s) (a_dead s), AOk, [])
        | None => (mkA T (a_store_open s) (a_clock s + 1) (a_open s) (a_dead s), AErr AOther, [])
        end
    | AGetPeers ns =>
        match aget s ns with
        | None => (s, AErr ANotOpen, [])
        | Some _ => (s, APeers (get_sync_peers T ns), [])
        end
    | AHasNews ns heads => (s, ANews (has_news heads (heads_of T ns)), [])
    end.
End Actor.
