(** store/fs.rs: the lazily shared write transaction with its age-based automatic commit, as a
    micro-step machine. [durable] is what a reopened file shows after a crash (redb's recovery to
    the last commit is assumed); [working] is what the live store reads. Every API call is a
    list of micro-steps; before a [MTables] step (and, in the pinned tree, also before a
    [MModify] step) the open write transaction may turn out to be older than MAX_COMMIT_DELAY and
    is then committed first. No proofs in this file. *)
From ID Require Export Model.StoreOps.

Record cstate := mkC { c_durable : tables; c_working : tables; c_write_open : bool }.

Inductive micro :=
  | MTables                               (* Store::tables(): read access through the write transaction *)
  | MModify (f : tables -> tables)        (* Store::modify(f) *)
  | MCommit.                              (* flush() / snapshot() / snapshot_owned(): commit if a write transaction is open *)

(** [aged] = the age check fires at this step; [modify_checks_age] = variant of the pinned tree *)
Definition micro_step (modify_checks_age : bool) (s : cstate) (m : micro) (aged : bool) : cstate :=
  let commit_if_aged s := if c_write_open s && aged then mkC (c_working s) (c_working s) true else s in
  match m with
  | MTables => let s' := commit_if_aged s in mkC (c_durable s') (c_working s') true
  | MModify f =>
      let s' := if modify_checks_age then commit_if_aged s else s in
      mkC (c_durable s') (f (c_working s')) true
  | MCommit => if c_write_open s then mkC (c_working s) (c_working s) false else s
  end.

Fixpoint run_micro (mca : bool) (s : cstate) (ms : list (micro * bool)) : cstate :=
  match ms with
  | [] => s
  | (m, aged) :: r => run_micro mca (micro_step mca s m aged) r
  end.

Section Ops.
  Variable key_succ : bytes -> option bytes.
  Variables EH MAX_FUTURE : N.

  (** the micro-steps of one replica write ([Replica::insert_remote_entry] of a valid entry on an
      open replica): parent lookup, prune, write of the three tables, policy read for the event *)
  Definition put_micro (T : tables) (e : entry) : list micro :=
    let ps := fs_prefixes_of EH T (e_ns e) (e_author e) (e_key e) in
    if existsb (fun p => val_leb e p) ps then [MTables]
    else [MTables;
          MModify (fun T => fst (fs_remove_prefix_filtered key_succ T (e_ns e) (e_author e) (e_key e) (fun c => val_leb c e)));
          MModify (fun T => fs_entry_put T e);
          MTables].
End Ops.
