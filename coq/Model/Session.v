(** net/codec.rs: the two session drivers ([run_alice], [BobState::run] + [into_outcome]) as
    machines over the list of frames the peer delivers, on top of the store-actor model.
    A frame is a decoded codec message or a decode error; the end of the list is the end of the
    stream (every quantified stream ends: a peer that neither sends nor closes is outside the
    model). [keep_progress] selects what happens to the progress slot when the actor fails:
    [true] = the slot keeps the last progress (the crate after the D7 repair), [false] = the slot
    is left empty (pinned tree). No proofs in this file. *)
From ID Require Export Model.Actor.

Inductive fin :=
  | FMsg (init : bool) (abort : bool) (ns : N) (m : message)
  | FBad
  | FAct (o : aop)       (* something else happens to the store actor between two frames *)
  | FShutdown.           (* the store actor is shut down *)
(** FMsg true _ ns m = Init{ns, m}; FMsg false false _ m = Sync m; FMsg false true _ _ = Abort *)

Inductive sres_kind := SOk | SErrAbort (reason : N) | SErrSync | SErrRemoteAbort.

Record bob_out := mkBO {
  bo_result : sres_kind;
  bo_namespace : option N;
  bo_outcome : option (N * N);         (* what [into_outcome] finds: (recv, sent) *)
  bo_sent : list (option message);     (* frames written: Some m = Sync m, None = Abort *)
  bo_actor_calls : N }.

Section Session.
  Variable ks : bytes -> option bytes.
  Variables EH MF CAP mss split : N.
  Variable keep_progress : bool.
  Notation step := (astep ks EH MF CAP mss split).

  Definition add_oc (p : N * N) (recv sent : N) : N * N := (fst p + recv, snd p + sent).

  (** a call into the store actor: an error once the actor is gone *)
  Definition call (gone : bool) (s : astate) (o : aop) : astate * ares :=
    if gone then (s, AErr AOther) else let '(s', r, _) := step s o in (s', r).

  Fixpoint bob_loop (gone : bool) (s : astate) (accept : N -> option N) (from now : N) (frames : list fin)
           (ns : option N) (prog : option (N * N)) (sent : list (option message)) (calls : N)
    : astate * bob_out :=
    let finish r := (s, mkBO r ns prog (rev sent) calls) in
    match frames with
    | [] => match ns with Some _ => finish SOk | None => finish SErrSync end
    | FBad :: _ => finish SErrSync
    | FAct o :: rest => bob_loop gone (fst (call gone s o)) accept from now rest ns prog sent calls
    | FShutdown :: rest => bob_loop true s accept from now rest ns prog sent calls
    | FMsg init abort n m :: rest =>
        if abort then finish SErrSync
        else
          let target :=
            if init then match ns with
                         | Some _ => inl SErrSync                          (* double init *)
                         | None => match accept n with
                                   | Some reason => inl (SErrAbort reason)
                                   | None => inr n
                                   end
                         end
            else match ns with Some n' => inr n' | None => inl SErrSync end in
          match target with
          | inl (SErrAbort reason) =>
              (s, mkBO (SErrAbort reason) ns prog (rev (None :: sent)) calls)
          | inl r => finish r
          | inr n' =>
              let p := match prog with Some p => p | None => (0, 0) end in
              let '(s', r) := call gone s (ASyncProcess n' m from now) in
              match r with
              | AReply reply recv snt =>
                  let prog' := Some (add_oc p recv snt) in
                  match reply with
                  | Some rm => bob_loop gone s' accept from now rest (Some n') prog' (Some rm :: sent) (calls + 1)
                  | None => (s', mkBO SOk (Some n') prog' (rev sent) (calls + 1))
                  end
              | _ => (s', mkBO SErrSync (Some n') (if keep_progress then prog else None) (rev sent) (calls + 1))
              end
          end
    end.

  Definition bob_run (s : astate) (accept : N -> option N) (from now : N) (frames : list fin) : astate * bob_out :=
    bob_loop false s accept from now frames None (Some (0, 0)) [] 0.

  Record alice_out := mkAO {
    ao_result : sres_kind;
    ao_outcome : option (N * N);
    ao_sent : list message;            (* Init first, then Sync *)
    ao_actor_calls : N }.

  Fixpoint alice_loop (gone : bool) (s : astate) (ns from now : N) (frames : list fin) (prog : N * N)
           (sent : list message) (calls : N) : astate * alice_out :=
    match frames with
    | [] => (s, mkAO SOk (Some prog) (rev sent) calls)
    | FBad :: _ => (s, mkAO SErrSync None (rev sent) calls)
    | FAct o :: rest => alice_loop gone (fst (call gone s o)) ns from now rest prog sent calls
    | FShutdown :: rest => alice_loop true s ns from now rest prog sent calls
    | FMsg init abort _ m :: rest =>
        if init then (s, mkAO SErrSync None (rev sent) calls)
        else if abort then (s, mkAO SErrRemoteAbort None (rev sent) calls)
        else
          let '(s', r) := call gone s (ASyncProcess ns m from now) in
          match r with
          | AReply reply recv snt =>
              let prog' := add_oc prog recv snt in
              match reply with
              | Some rm => alice_loop gone s' ns from now rest prog' (rm :: sent) (calls + 1)
              | None => (s', mkAO SOk (Some prog') (rev sent) (calls + 1))
              end
          | _ => (s', mkAO SErrSync None (rev sent) (calls + 1))
          end
    end.

  Definition alice_run (s : astate) (ns from now : N) (frames : list fin) : astate * alice_out :=
    let '(s1, r, _) := step s (ASyncInit ns) in
    match r with
    | AMsg init => alice_loop false s1 ns from now frames (0, 0) [init] 1
    | _ => (s1, mkAO SErrSync None [] 1)
    end.
End Session.
