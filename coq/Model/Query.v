(** store/fs/query.rs + store/util.rs: index selection, bounds, iteration in either direction,
    filters, stale index rows, latest-per-key selection, offset and limit.
    [query_spec] is the declarative reading of a query over the set of entries held.
    No proofs in this file. *)
From ID Require Export Model.FsStore.

Record query := mkQ {
  q_latest : bool;            (* QueryKind::SingleLatestPerKey *)
  q_by_key : bool;            (* Flat { sort_by: KeyAuthor } *)
  q_author : option N;        (* AuthorFilter *)
  q_key : kfilter;
  q_limit : option N;
  q_offset : N;
  q_include_empty : bool;
  q_desc : bool }.

Definition author_ok (f : option N) (a : N) : bool :=
  match f with None => true | Some x => x =? a end.

Section Query.
  Variable key_succ : bytes -> option bytes.
  Variable EH : N.

  Definition dir {A} (desc : bool) (l : list A) : list A := if desc then rev l else l.

  (** [LatestPerKeySelector] run over a whole stream: for each run of equal keys keep the entry
      with the greatest timestamp, the earliest one in iteration order on ties *)
  Fixpoint select_latest (cur : option entry) (l : list entry) : list entry :=
    match l with
    | [] => match cur with Some c => [c] | None => [] end
    | e :: r =>
        match cur with
        | None => select_latest (Some e) r
        | Some c =>
            if bytes_eqb (e_key c) (e_key e)
            then select_latest (Some (if e_ts c <? e_ts e then e else c)) r
            else c :: select_latest (Some e) r
        end
    end.

  (** offset and limit are u64: the window is cut by counting down in [N] along the list (a limit of
      2^64-1 is an ordinary value; [Proofs/QueryFacts.v window_spec]: this is [firstn]/[skipn]) *)
  Fixpoint skipn_N (l : list entry) (n : N) : list entry :=
    match l with
    | [] => []
    | _ :: r => if n =? 0 then l else skipn_N r (N.pred n)
    end.
  Fixpoint firstn_N (l : list entry) (n : N) : list entry :=
    match l with
    | [] => []
    | x :: r => if n =? 0 then [] else x :: firstn_N r (N.pred n)
    end.
  Definition window (q : query) (l : list entry) : list entry :=
    let l := skipn_N l (q_offset q) in
    match q_limit q with Some n => firstn_N l n | None => l end.

  Definition keep_empty (q : query) (e : entry) : bool := q_include_empty q || negb (is_marker EH e).

  (** the iterator, as the list it yields *)
  Definition run_query (T : tables) (ns : N) (q : query) : list entry :=
    let use_key_index := q_latest q || (q_by_key q && match q_author q with None => true | Some _ => false end) in
    if use_key_index then
      let b := kb_new key_succ ns (q_key q) in
      let rows := dir (q_desc q) (tbl_range kid_cmp (fst b) (snd b) (t_bykey T)) in
      let af := if q_latest q then q_author q else None in
      let found :=
        flat_map (fun row => let '((n, k, a), _) := row in
                  if author_ok af a then
                    match tbl_get rid_cmp (n, a, k) (t_records T) with
                    | Some v => [row_entry ((n, a, k), v)]
                    | None => []            (* stale index row: skipped *)
                    end
                  else []) rows in
      let sel := if q_latest q then select_latest None found else found in
      window q (filter (keep_empty q) sel)
    else
      let '(b, kf) := match q_author q with
                      | Some a => (rb_author_key key_succ ns a (q_key q), KAny)
                      | None => (rb_namespace ns, q_key q)
                      end in
      let rows := dir (q_desc q) (map row_entry (tbl_range rid_cmp (fst b) (snd b) (t_records T))) in
      window q (filter (fun e => kf_matches kf (e_key e) && keep_empty q e) rows).

  (** ---- specification, over the set [S] of entries of the namespace ---- *)
  Fixpoint insert_by (lt : entry -> entry -> bool) (e : entry) (l : list entry) : list entry :=
    match l with
    | [] => [e]
    | x :: r => if lt e x then e :: l else x :: insert_by lt e r
    end.
  Definition sort_by (lt : entry -> entry -> bool) (l : list entry) : list entry :=
    fold_right (insert_by lt) [] l.

  Definition lt_author_key (a b : entry) : bool :=
    match e_author a ?= e_author b with
    | Lt => true | Gt => false
    | Eq => lex_lt (e_key a) (e_key b)
    end.
  Definition lt_key_author (a b : entry) : bool :=
    match lex_cmp (e_key a) (e_key b) with
    | Lt => true | Gt => false
    | Eq => e_author a <? e_author b
    end.

  Definition matches (q : query) (e : entry) : bool :=
    author_ok (q_author q) (e_author e) && kf_matches (q_key q) (e_key e).

  Definition query_spec (S : list entry) (q : query) : list entry :=
    let m := filter (matches q) S in
    if q_latest q then
      let ordered := dir (q_desc q) (sort_by lt_key_author m) in
      window q (filter (keep_empty q) (select_latest None ordered))
    else
      let by_key := q_by_key q && match q_author q with None => true | Some _ => false end in
      let ordered := dir (q_desc q) (sort_by (if by_key then lt_key_author else lt_author_key) m) in
      window q (filter (keep_empty q) ordered).

  (** what "latest per key" must mean whatever the tie-break: for every matching key exactly
      one entry, of maximal timestamp among the matching entries at that key *)
  Definition latest_ok (S out : list entry) (q : query) : bool :=
    let m := filter (matches q) S in
    forallb (fun o => existsb (entry_eqb o) m
                      && forallb (fun e => negb (bytes_eqb (e_key e) (e_key o)) || (e_ts e <=? e_ts o)) m) out.
End Query.
