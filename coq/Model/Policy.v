(** store.rs: the textual form of download-policy filters ([Display] / [FromStr] of
    [FilterKind]). Whether a byte string is valid UTF-8 is an input ([is_utf8]): the round-trip
    theorem holds for every such predicate. No proofs in this file. *)
From ID Require Export Model.Replica.

Definition COLON : N := 58.
Definition s_prefix : bytes := [112; 114; 101; 102; 105; 120].   (* "prefix" *)
Definition s_exact : bytes := [101; 120; 97; 99; 116].           (* "exact" *)
Definition s_utf8 : bytes := [117; 116; 102; 56].                (* "utf8" *)
Definition s_hex : bytes := [104; 101; 120].                     (* "hex" *)

Definition hexdigit (n : N) : N := if n <? 10 then 48 + n else 87 + n.
Definition hex_encode (b : bytes) : bytes := flat_map (fun x => [hexdigit (x / 16); hexdigit (x mod 16)]) b.
Definition unhex (c : N) : option N :=
  if (48 <=? c) && (c <=? 57) then Some (c - 48)
  else if (97 <=? c) && (c <=? 102) then Some (c - 87)
  else if (65 <=? c) && (c <=? 70) then Some (c - 55)
  else None.
Fixpoint hex_decode_pairs (fuel : nat) (t : bytes) : option bytes :=
  match fuel with
  | O => match t with [] => Some [] | _ => None end
  | S f =>
      match t with
      | [] => Some []
      | a :: b :: r =>
          match unhex a, unhex b, hex_decode_pairs f r with
          | Some x, Some y, Some l => Some (x * 16 + y :: l)
          | _, _, _ => None
          end
      | _ => None
      end
  end.
Definition hex_decode (t : bytes) : option bytes := hex_decode_pairs (length t) t.

(** [str::split_once(':')] *)
Fixpoint split_once (t : bytes) : option (bytes * bytes) :=
  match t with
  | [] => None
  | c :: r => if c =? COLON then Some ([], r)
              else match split_once r with Some (a, b) => Some (c :: a, b) | None => None end
  end.

Definition filter_display (is_utf8 : bool) (f : filter_kind) : bytes :=
  let '(kind, b) := match f with FPrefix b => (s_prefix, b) | FExact b => (s_exact, b) end in
  kind ++ [COLON] ++ (if is_utf8 then s_utf8 ++ [COLON] ++ b else s_hex ++ [COLON] ++ hex_encode b).

Definition filter_parse (t : bytes) : option filter_kind :=
  match split_once t with
  | None => None
  | Some (kind, rest) =>
      match split_once rest with
      | None => None
      | Some (enc, rest) =>
          let is_exact := if bytes_eqb kind s_exact then Some true
                          else if bytes_eqb kind s_prefix then Some false else None in
          let decoded := if bytes_eqb enc s_utf8 then Some rest
                         else if bytes_eqb enc s_hex then hex_decode rest else None in
          match is_exact, decoded with
          | Some true, Some d => Some (FExact d)
          | Some false, Some d => Some (FPrefix d)
          | _, _ => None
          end
      end
  end.
