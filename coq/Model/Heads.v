(** heads.rs: [AuthorHeads::encode] with an optional size limit, and [decode]. Heads are a map
    author -> timestamp, given as a list ascending by author (BTreeMap iteration order).
    [distinct_ts = true] models the pinned tree, which first re-keyed the map by timestamp
    (BTreeMap<Timestamp, AuthorId>: of several authors sharing a timestamp only the greatest
    survives); [false] is the crate after the D5 repair (ordered by (timestamp, author)).
    No proofs in this file. *)
From ID Require Export Model.Codecs.

Definition head := (N * N)%type.      (* (author, timestamp) *)

Fixpoint insert_desc (x : N * N) (l : list (N * N)) : list (N * N) :=   (* (timestamp, author), descending *)
  match l with
  | [] => [x]
  | y :: r =>
      match fst x ?= fst y with
      | Gt => x :: l
      | Lt => y :: insert_desc x r
      | Eq => match snd x ?= snd y with
              | Gt => x :: l
              | Eq => l
              | Lt => y :: insert_desc x r
              end
      end
  end.
Definition newest_first (heads : list head) : list (N * N) :=
  fold_left (fun acc h => insert_desc (snd h, fst h) acc) heads [].

(** keep only the greatest author per timestamp (what re-keying by timestamp does) *)
Fixpoint collapse_from (prev : option N) (l : list (N * N)) : list (N * N) :=
  match l with
  | [] => []
  | x :: r =>
      match prev with
      | Some t => if t =? fst x then collapse_from prev r else x :: collapse_from (Some (fst x)) r
      | None => x :: collapse_from (Some (fst x)) r
      end
  end.
Definition collapse_ts (l : list (N * N)) : list (N * N) := collapse_from None l.

Definition varint_len (v : N) : N := N.of_nat (length (enc_varint v)).
(** [postcard::experimental::serialized_size(&items)] for Vec<(u64, [u8; 32])> *)
Definition items_size (items : list (N * N)) : N :=
  varint_len (N.of_nat (length items)) + fold_left (fun a it => a + varint_len (fst it) + 32) items 0.

(** push newest first; stop at the first item that makes the encoding exceed the limit *)
Fixpoint take_fitting (limit : N) (acc : list (N * N)) (rest : list (N * N)) : list (N * N) :=
  match rest with
  | [] => acc
  | it :: r => if limit <? items_size (acc ++ [it]) then acc else take_fitting limit (acc ++ [it]) r
  end.

Definition heads_encode_items (distinct_ts : bool) (heads : list head) (limit : option N) : list (N * N) :=
  let sorted := newest_first heads in
  let sorted := if distinct_ts then collapse_ts sorted else sorted in
  match limit with
  | None => sorted
  | Some L => take_fitting L [] sorted
  end.

(** ids as 32 big-endian bytes *)
Fixpoint be_n (n : nat) (x : N) : bytes := match n with O => [] | S m => be_n m (x / 256) ++ [x mod 256] end.
Definition heads_encode (distinct_ts : bool) (heads : list head) (limit : option N) : bytes :=
  enc_heads (map (fun it => (fst it, be_n 32 (snd it))) (heads_encode_items distinct_ts heads limit)).

(** [decode]: fold the items into a map with [insert] = max per author; here as an association
    list ascending by author *)
Fixpoint head_insert (a t : N) (l : list head) : list head :=
  match l with
  | [] => [(a, t)]
  | (a', t') :: r => match a ?= a' with
                     | Lt => (a, t) :: l
                     | Eq => (a, N.max t t') :: r
                     | Gt => (a', t') :: head_insert a t r
                     end
  end.
Definition heads_of_items (items : list (N * N)) : list head :=
  fold_left (fun acc it => head_insert (snd it) (fst it) acc) items [].
