(** store/fs.rs: the [ranger::Store] implementation over the tables, [get_exact], the parent
    lookup, prefix removal, [entry_put], and [put] composed from them exactly as
    [ranger::Store::put] composes them. No proofs in this file. *)
From ID Require Export Model.Bounds Model.Put.

Section Fs.
  Variable key_succ : bytes -> option bytes.
  Variable EH : N.   (* hash of the empty blob *)

  Definition rec_range (b : bound rid * bound rid) (T : tables) : list entry :=
    map row_entry (tbl_range rid_cmp (fst b) (snd b) (t_records T)).

  Definition default_id : rid := (0, 0, []).

  (** [get_first] *)
  Definition fs_get_first (ns : N) (T : tables) : rid :=
    match rec_range (rb_namespace ns) T with
    | e :: _ => entry_rid e
    | [] => default_id
    end.

  (** [get_range]: x = y all; x < y regular; x > y wrap-around = [start,y) then [x,end];
      every scan clamped to the namespace ([clamp = false]: the pinned tree, which used the
      peer's range ends as table bounds as they were — defect D14) *)
  Definition fs_get_range_gen (clamp : bool) (ns : N) (T : tables) (x y : rid) : list entry :=
    match rid_cmp x y with
    | Eq => rec_range (rb_namespace ns) T
    | Lt => rec_range (if clamp then rb_clamped ns (Some x) (Some y) else (Incl x, Excl y)) T
    | Gt => rec_range (if clamp then rb_clamped ns None (Some y) else (namespace_start ns, Excl y)) T
            ++ rec_range (if clamp then rb_clamped ns (Some x) None else (Incl x, namespace_end ns)) T
    end.
  Definition fs_get_range := fs_get_range_gen true.

  (** [get_exact] *)
  Definition fs_get_exact (T : tables) (ns au : N) (k : bytes) (include_empty : bool) : option entry :=
    match tbl_get rid_cmp (ns, au, k) (t_records T) with
    | Some v =>
        let e := row_entry ((ns, au, k), v) in
        if include_empty || negb (is_marker EH e) then Some e else None
    | None => None
    end.

  (** [parents]: look the key up, pop one byte, repeat down to and including the empty key;
      result in ascending key-length order. [fuel] = length of the key + 1. *)
  Fixpoint parents_loop (fuel : nat) (T : tables) (ns au : N) (k : bytes) (acc : list entry) : list entry :=
    match fuel with
    | O => acc
    | S f =>
        let acc' := match fs_get_exact T ns au k true with Some e => e :: acc | None => acc end in
        match k with
        | [] => acc'
        | _ => parents_loop f T ns au (pop k) acc'
        end
    end.
  Definition fs_prefixes_of (T : tables) (ns au : N) (k : bytes) : list entry :=
    parents_loop (S (length k)) T ns au k [].

  (** [remove_prefix_filtered] : only the records table is touched *)
  Definition fs_remove_prefix_filtered (T : tables) (ns au : N) (k : bytes) (pred : entry -> bool)
    : tables * N :=
    let b := rb_author_prefix key_succ ns au k in
    let '(r, n) := tbl_extract_if rid_cmp (fst b) (snd b)
                     (fun id v => pred (row_entry (id, v))) (t_records T) in
    (set_records T r, n).

  (** [entry_put]: three tables in one [modify]; the head only moves forward *)
  Definition fs_entry_put (T : tables) (e : entry) : tables :=
    let T1 := set_records T (tbl_insert rid_cmp (entry_rid e) (entry_rval e) (t_records T)) in
    let T2 := set_bykey T1 (tbl_insert kid_cmp (e_ns e, e_key e, e_author e) tt (t_bykey T1)) in
    let newer :=
      match tbl_get pair_cmp (e_ns e, e_author e) (t_latest T2) with
      | Some (ts, _) => ts <=? e_ts e
      | None => true
      end in
    if newer then set_latest T2 (tbl_insert pair_cmp (e_ns e, e_author e) (e_ts e, e_key e) (t_latest T2))
    else T2.

  (** [ranger::Store::put] over the tables *)
  Definition fs_put (T : tables) (e : entry) : tables * outcome :=
    let ps := fs_prefixes_of T (e_ns e) (e_author e) (e_key e) in
    if existsb (fun p => val_leb e p) ps then (T, NotInserted)
    else
      let '(T1, n) := fs_remove_prefix_filtered T (e_ns e) (e_author e) (e_key e)
                        (fun c => val_leb c e) in
      (fs_entry_put T1 e, Inserted n).

  (** all rows of a namespace, as entries *)
  Definition fs_all (ns : N) (T : tables) : list entry := rec_range (rb_namespace ns) T.
End Fs.
