(** engine/state.rs + the completion handlers of engine/live.rs: coordination of reconciliation
    sessions between two nodes for one document. [hi] is the node with the greater id (it accepts
    an incoming request while it is dialing itself; the other one declines).
    The in-flight items (requests, replies, sessions with two independently finishing ends, failed
    connect tasks) form an unbounded multiset; transitions pick any item (any schedule).
    [abort_frees]: what the connect-finished handler does on RemoteAbort(AlreadySyncing):
    [true] = free the slot if it still says "dialing" (after the D8 repair), [false] = nothing
    (pinned tree). No proofs in this file. *)
From Coq Require Export List NArith Bool.
Export ListNotations.

Inductive cst := Idle | RunC (reason : N) | RunA.
(** reasons: 0 DirectJoin, 1 NewNeighbor, 2 SyncReport, 3 Resync *)
Definition R_REPORT : N := 2%N.
Definition R_RESYNC : N := 3%N.

Record node := mkNode { n_st : cst; n_resync : bool }.
Definition node0 := mkNode Idle false.

Inductive endst := ERun | EDone | EHandled.

Inductive item :=
  | IReq (from_hi : bool) (reason : N)                  (* a request on its way; the dialer's connect task is pending *)
  | IReply (to_hi : bool) (reason : N)                  (* "declined: already syncing" on its way back to the dialer *)
  | IFail (x_hi : bool) (reason : N)                    (* the dialer's connect task ended with another error; handler pending *)
  | ISess (init_hi : bool) (reason : N) (c a : endst).  (* an accepted session: connect end (initiator), accept end *)

Record cstate := mkCS { hi : node; lo : node; items : list item; dials : list (bool * N) (* dial log, newest first *) }.
Definition cinit := mkCS node0 node0 [] [].

Definition get (s : cstate) (x_hi : bool) : node := if x_hi then hi s else lo s.
Definition set (s : cstate) (x_hi : bool) (n : node) : cstate :=
  if x_hi then mkCS n (lo s) (items s) (dials s) else mkCS (hi s) n (items s) (dials s).
Definition with_items (s : cstate) (l : list item) : cstate := mkCS (hi s) (lo s) l (dials s).

(** [sync_with_peer] = [start_connect] + spawning the connect task *)
Definition dial (s : cstate) (x_hi : bool) (reason : N) : cstate :=
  let n := get s x_hi in
  match n_st n with
  | Idle =>
      let s' := set s x_hi (mkNode (RunC reason) false) in
      mkCS (hi s') (lo s') (IReq x_hi reason :: items s') ((x_hi, reason) :: dials s')
  | _ => if N.eqb reason R_REPORT then set s x_hi (mkNode (n_st n) true) else s
  end.

(** [accept_request] at node [y_hi]; returns whether it allows *)
Definition accept (s : cstate) (y_hi : bool) : cstate * bool :=
  let n := get s y_hi in
  let allow := match n_st n with
               | Idle => true
               | RunA => false
               | RunC _ => y_hi            (* the greater id accepts while dialing, the lesser declines *)
               end in
  if allow then (set s y_hi (mkNode RunA false), true) else (s, false).

(** [NamespaceStates::finish] followed by the resync dial of [on_sync_finished] *)
Definition finish (s : cstate) (x_hi : bool) : cstate :=
  let n := get s x_hi in
  match n_st n with
  | Idle => s
  | _ => let s' := set s x_hi (mkNode Idle (n_resync n)) in
         if n_resync n then dial s' x_hi R_RESYNC else s'
  end.

(** the connect-finished handler on RemoteAbort(AlreadySyncing) *)
Definition on_abort (abort_frees : bool) (s : cstate) (x_hi : bool) : cstate :=
  if abort_frees then
    match n_st (get s x_hi) with
    | RunC _ => finish s x_hi
    | _ => s
    end
  else s.

(** transitions; items are addressed by position *)
Inductive trans :=
  | TDial (x_hi : bool) (reason : N)
  | TDeliver (k : nat)          (* IReq k reaches the other node *)
  | TLose (k : nat)             (* IReq / IReply k is lost: the dialer's connect task fails *)
  | TReply (k : nat)            (* IReply k reaches the dialer; its handler runs *)
  | TEndC (k : nat)             (* the connect end of session k finishes *)
  | TEndA (k : nat)
  | THandleC (k : nat)          (* the handler for the finished connect end of session k runs *)
  | THandleA (k : nat)
  | THandleFail (k : nat).

Fixpoint replace_nth (l : list item) (k : nat) (new : list item) : list item :=
  match l, k with
  | [], _ => []
  | _ :: r, O => new ++ r
  | x :: r, S k' => x :: replace_nth r k' new
  end.

Definition gc (it : item) : list item :=
  match it with ISess _ _ EHandled EHandled => [] | _ => [it] end.

Definition cstep (abort_frees : bool) (s : cstate) (t : trans) : cstate :=
  match t with
  | TDial x r => dial s x r
  | TDeliver k =>
      match nth_error (items s) k with
      | Some (IReq x r) =>
          let '(s', allow) := accept s (negb x) in
          with_items s' (replace_nth (items s') k (if allow then [ISess x r ERun ERun] else [IReply x r]))
      | _ => s
      end
  | TLose k =>
      match nth_error (items s) k with
      | Some (IReq x r) | Some (IReply x r) => with_items s (replace_nth (items s) k [IFail x r])
      | _ => s
      end
  | TReply k =>
      match nth_error (items s) k with
      | Some (IReply x r) =>
          (* the item disappears first, then the handler runs (it may add a new request at the front) *)
          on_abort abort_frees (with_items s (replace_nth (items s) k [])) x
      | _ => s
      end
  | TEndC k =>
      match nth_error (items s) k with
      | Some (ISess x r ERun a) => with_items s (replace_nth (items s) k [ISess x r EDone a])
      | _ => s
      end
  | TEndA k =>
      match nth_error (items s) k with
      | Some (ISess x r c ERun) => with_items s (replace_nth (items s) k [ISess x r c EDone])
      | _ => s
      end
  | THandleC k =>
      match nth_error (items s) k with
      | Some (ISess x r EDone a) => finish (with_items s (replace_nth (items s) k (gc (ISess x r EHandled a)))) x
      | _ => s
      end
  | THandleA k =>
      match nth_error (items s) k with
      | Some (ISess x r c EDone) => finish (with_items s (replace_nth (items s) k (gc (ISess x r c EHandled)))) (negb x)
      | _ => s
      end
  | THandleFail k =>
      match nth_error (items s) k with
      | Some (IFail x r) => finish (with_items s (replace_nth (items s) k [])) x
      | _ => s
      end
  end.

Definition crun (abort_frees : bool) (s : cstate) (ts : list trans) : cstate := fold_left (cstep abort_frees) ts s.

(** sessions in progress: both ends still running *)
Definition in_progress (it : item) : bool := match it with ISess _ _ ERun ERun => true | _ => false end.
Definition sessions_in_progress (s : cstate) : nat := length (filter in_progress (items s)).
