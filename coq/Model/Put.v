(** The abstract replica store: a finite set of entries (a list, order irrelevant) and
    [ranger::Store::put] on it. No proofs in this file. *)
From ID Require Export Model.Entry.

Inductive outcome := NotInserted | Inserted (removed : N).

Definition nlen {A} (l : list A) : N := N.of_nat (length l).

(** [put]: reject if some held entry at the key or a prefix of it (same author) is not older;
    otherwise remove every held same-author entry whose key extends the new key and which is
    not newer, and add the entry. *)
Definition put (S : list entry) (e : entry) : list entry * outcome :=
  if existsb (fun p => rel p e) S then (S, NotInserted)
  else (e :: filter (fun c => negb (rel e c)) S, Inserted (nlen (filter (fun c => rel e c) S))).

Definition puts (S0 : list entry) (l : list entry) : list entry :=
  fold_left (fun S e => fst (put S e)) l S0.

(** specification vocabulary *)
Definition dom (d e : entry) : Prop := d <> e /\ rel d e = true.
Definition reduced (S : list entry) : Prop := forall d e, In d S -> In e S -> ~ dom d e.
(** no "twin-len" pair: two entries that agree on id, timestamp and hash are equal *)
Definition consistent (X : list entry) : Prop :=
  forall a b, In a X -> In b X -> e_ns a = e_ns b -> e_author a = e_author b ->
              e_key a = e_key b -> e_ts a = e_ts b -> e_hash a = e_hash b -> a = b.
(** membership in [reduce X]: the entries of [X] no other entry of [X] dominates *)
Definition in_reduce (X : list entry) (e : entry) : Prop := In e X /\ forall d, In d X -> ~ dom d e.
Definition set_eq (A B : list entry) : Prop := forall x, In x A <-> In x B.

(** executable [reduce] (used as the specification oracle in the correspondence runs) *)
Definition domb (d e : entry) : bool := negb (entry_eqb d e) && rel d e.
Definition reduce (X : list entry) : list entry :=
  filter (fun e => negb (existsb (fun d => domb d e) X)) X.
Definition join (A B : list entry) : list entry := reduce (A ++ B).

(** twin-len detector (known-finding class D11) *)
Definition twin (a b : entry) : bool :=
  same_id a b && (e_ts a =? e_ts b) && (e_hash a =? e_hash b) && negb (e_len a =? e_len b).
Definition has_twin (X : list entry) : bool := existsb (fun a => existsb (fun b => twin a b) X) X.
