(** Entries as the reconciliation layer sees them. 32-byte ids and hashes are modelled by their
    big-endian value (an [N] below 2^256): byte-wise order of equal-width arrays is numeric
    order (proved in Proofs/FixedWidth.v). Signatures are not part of the model entry: they are
    a function of the content and the keys (ed25519 is deterministic); validity of signatures
    is an input bit of the wire entry (Model/Replica.v). *)
From ID Require Export Base.Bytes.

Record entry := mkE {
  e_ns : N;        (* namespace id *)
  e_author : N;    (* author id *)
  e_key : bytes;
  e_ts : N;        (* micros *)
  e_len : N;
  e_hash : N }.

(** hash of the empty byte string: BLAKE3("") — the value is supplied by Params.v; the models
    take it as a parameter [EH]. An entry is a deletion marker iff its hash is [EH]. *)
Definition is_marker (EH : N) (e : entry) : bool := e_hash e =? EH.

Definition entry_eqb (a b : entry) : bool :=
  (e_ns a =? e_ns b) && (e_author a =? e_author b) && bytes_eqb (e_key a) (e_key b)
  && (e_ts a =? e_ts b) && (e_len a =? e_len b) && (e_hash a =? e_hash b).

(** [Ord for Record]: timestamp, then hash. [len] is NOT compared. *)
Definition val_leb (a b : entry) : bool :=
  (e_ts a <? e_ts b) || ((e_ts a =? e_ts b) && (e_hash a <=? e_hash b)).
Definition val_ltb (a b : entry) : bool := negb (val_leb b a).

(** same record identifier *)
Definition same_id (a b : entry) : bool :=
  (e_ns a =? e_ns b) && (e_author a =? e_author b) && bytes_eqb (e_key a) (e_key b).

(** [rel d e]: [d] sits at [e]'s key or at a prefix of it, same namespace and author, and [e]
    is not newer than [d] — then [d] blocks / prunes [e]. *)
Definition rel (d e : entry) : bool :=
  (e_ns d =? e_ns e) && (e_author d =? e_author e) && is_prefix (e_key d) (e_key e) && val_leb e d.

(** order of record identifiers = order of the concatenation ns‖author‖key *)
Definition id_cmp (ns1 a1 : N) (k1 : bytes) (ns2 a2 : N) (k2 : bytes) : comparison :=
  match ns1 ?= ns2 with
  | Eq => match a1 ?= a2 with Eq => lex_cmp k1 k2 | c => c end
  | c => c
  end.
Definition eid_cmp (a b : entry) : comparison :=
  id_cmp (e_ns a) (e_author a) (e_key a) (e_ns b) (e_author b) (e_key b).
Definition eid_ltb (a b : entry) : bool := match eid_cmp a b with Lt => true | _ => false end.
